"""C10 — a molecular formula is decomposed into exactly its atoms. Decided (necessary
conditions; the formula language itself is a runtime matter): (R1) the operator symbols the
rewriter inserts are the symbols of the very classes configured in the solver, steps are
par -> mul -> add; (R2) conservation in replacement callbacks: per branch, the matched text is
re-emitted group by group in order; a group may be omitted only if the branch condition proves it
empty, or it is whitespace and an operator symbol is inserted at its position; (R3) count
accumulation: existing species += count, new species created with that count, scaling multiplies
every count, addition merges all species of both sides, and the totals are re-normalised on every
path of add(); (R4) per-species formulas N=A-Z, e=Z+charge, mass=isotope mass+charge*m_e,
abundance-weighted natural mean, arg-max of abundance with aligned key order, suffix ladder;
(R5) every m.group(k) refers to an existing group of its pattern; (R6) species objects are built
fresh per parse (no shared mutable class-level state). NOT decided: the regex rewriting for
arbitrary nesting/spacing, isotope data, totals (composition of R3/R4). (R7) every species text the element reader accepts is one token of the formula rewriter (exhaustive over suffixes); results of + and * share no component object with an operand; no module-level mutable state."""
import ast

from ..literal import Evaluator, NotLiteral
from ..model import AnalysisError, dotted_name, enclosing_function, methods, norm, qualname, walk_no_nested
from ..predtable import Handler, Unrecognised, run_block
from ..regexast import group_count, top_level
from ..solvercfg import all_configs
from ..symexpr import NotSymbolic, SymEval, Term
from . import common as K

LEVEL_TEXT = ("static analysis (ast + regex ASTs): writer/reader agreement between the formula rewriter and the solver "
              "configuration, group-conservation of every replacement callback branch against its pattern's group "
              "structure, accumulation/normalisation shape of the species table, symbolic per-species formulas")
LEVEL_NOTE = "trusted: isotope data table; re.sub semantics; the solver clauses of C01 for this configuration"
TECHNIQUE = "regex-AST group conservation + decision tables + symbolic formulas over ast (static analysis)"

MAT = "src/scinumtools/materials/"
SS, MS, CO, EL, SU, MA = (MAT + f for f in ("substance_solver.py", "material_solver.py", "composite.py", "element.py",
                                             "substance.py", "material.py"))


def _local_strings(ctx, mod, fn):
    """Simple local constants `name = <string expr>` of a function, evaluated in order."""
    env = {}
    for st in walk_no_nested(fn):
        pass
    for st in fn.body:
        if isinstance(st, ast.Assign) and len(st.targets) == 1 and isinstance(st.targets[0], ast.Name):
            try:
                v = Evaluator(ctx.repo, mod, env).ev(st.value)
                if isinstance(v, str):
                    env[st.targets[0].id] = v
            except AnalysisError:
                pass
    return env


def _sub_calls(ctx, relpath, qual):
    """(call node, pattern string, replacement spec) for every re.sub in the function, in source order."""
    mod = ctx.repo.module(relpath)
    fn = ctx.fn(relpath, qual)
    env = _local_strings(ctx, mod, fn)
    out = []
    calls = sorted([c for c in ast.walk(fn) if isinstance(c, ast.Call) and dotted_name(c.func) == "re.sub" and len(c.args) >= 3],
                   key=lambda c: (c.lineno, c.col_offset))
    for c in calls:
        try:
            pat = Evaluator(ctx.repo, mod, env).ev(c.args[0])
        except AnalysisError as e:
            ctx.unrecognised(relpath, qual, f"pattern of {norm(c)[:60]}", str(e))
            continue
        repl = c.args[1]
        if isinstance(repl, ast.Name):
            defs = [d for d in ast.walk(fn) if isinstance(d, ast.FunctionDef) and d.name == repl.id and d.lineno < c.lineno]
            if not defs:
                ctx.unrecognised(relpath, qual, f"replacement {repl.id}", "callback definition not found before the call")
                continue
            out.append((c, pat, max(defs, key=lambda d: d.lineno), mod))
        else:
            try:
                out.append((c, pat, Evaluator(ctx.repo, mod, env).ev(repl), mod))
            except AnalysisError as e:
                ctx.unrecognised(relpath, qual, f"replacement of {norm(c)[:60]}", str(e))
    return out


def _pieces(ctx, mod, node, mvar):
    """Flatten a concatenation into [('lit', s) | ('op', s) | ('g', k)]."""
    if isinstance(node, ast.BinOp) and isinstance(node.op, ast.Add):
        return _pieces(ctx, mod, node.left, mvar) + _pieces(ctx, mod, node.right, mvar)
    if isinstance(node, ast.Call) and isinstance(node.func, ast.Attribute) and node.func.attr == "group" \
            and norm(node.func.value) == mvar and len(node.args) == 1 and isinstance(node.args[0], ast.Constant):
        return [("g", node.args[0].value)]
    if isinstance(node, ast.Constant) and isinstance(node.value, str):
        return [("lit", node.value)]
    if isinstance(node, ast.Attribute) and node.attr == "symbol":
        try:
            return [("op", Evaluator(ctx.repo, mod).ev(node))]
        except AnalysisError:
            pass
    raise Unrecognised(f"replacement piece {norm(node)}")


class ReplHandler(Handler):
    def __init__(self, mvar, val):
        super().__init__()
        self.m, self.val = mvar, val
        self.ret = None

    def test(self, node):
        if isinstance(node, ast.Call) and isinstance(node.func, ast.Attribute) and node.func.attr == "group" \
                and norm(node.func.value) == self.m and len(node.args) == 1 and isinstance(node.args[0], ast.Constant):
            return self.val.get(node.args[0].value)
        return None

    def stmt(self, node):
        if isinstance(node, ast.Return):
            self.ret = node.value
        else:
            raise Unrecognised(f"statement {norm(node)}")


def _cover(elems, used):
    """Expand a group into its children when the callback refers to the children."""
    out = []
    for e in elems:
        if e.kind == "group" and e.children and e.group not in used and any(_uses(c, used) for c in e.children):
            out += _cover(e.children, used)
        else:
            out.append(e)
    return out


def _uses(e, used):
    return e.group in used or any(_uses(c, used) for c in e.children)


def _conserved(seq, pieces, val):
    """Two-pointer alignment of the pattern's elements with the emitted pieces -> list of problems."""
    problems, pending = [], []
    pos = 0

    def is_anchor(p):
        return p[0] == "g" or (p[0] == "lit" and any(e.kind == "literal" and e.text == p[1] for e in seq))

    def resolve(gap):
        has_op = any(p[0] == "op" or (p[0] == "lit" and p[1].strip() != "" and not is_anchor(p)) for p in gap)
        for e in pending:
            if not has_op:
                problems.append(f"{e!r} (whitespace) is dropped and no operator symbol is inserted at its position")
        pending.clear()

    for e in seq:
        nxt = next((i for i in range(pos, len(pieces)) if is_anchor(pieces[i])), None)
        match = False
        if nxt is not None:
            p = pieces[nxt]
            match = (e.kind == "group" and p == ("g", e.group)) or (e.kind == "literal" and p == ("lit", e.text))
        if match:
            resolve(pieces[pos:nxt])
            pos = nxt + 1
            continue
        if e.kind == "group" and val.get(e.group) is False:
            continue                      # proven empty on this branch
        if e.kind != "literal" and e.blank:
            pending.append(e)
            continue
        if e.kind != "literal" and e.nullable and e.kind == "other":
            pending.append(e)
            continue
        problems.append(f"{e!r} is matched but not re-emitted")
    resolve(pieces[pos:])
    extra = [p for p in pieces[pos:] if p[0] == "g"]
    for p in extra:
        problems.append(f"group {p[1]} emitted out of order or twice")
    return problems


def _operator_roles(ctx, rel, qual, cell, pieces, elems):
    """Which operator an implicit position receives: a group that matches only digits is a count and is joined by the
    multiplication; any other emitted text that follows an inserted operator (a species, an opening parenthesis) is
    the next summand and is joined by the addition."""
    cfg = {c.relpath: c for c in all_configs(ctx.repo)}.get(rel)
    if cfg is None or rel != SS:          # in a substance formula the count follows what it multiplies (in a material it precedes the molecule)
        return
    syms = {k: cfg.symbol(ctx.repo, v) for k, v in cfg.operators.items()}
    digits = {}

    def collect(es):
        for e in es:
            if e.kind == "group":
                digits[e.group] = e.digits
            collect(e.children)
    collect(elems)
    for i, p in enumerate(pieces[:-1]):
        if p[0] != "op":
            continue
        nxt = pieces[i + 1]
        if nxt[0] == "g" and nxt[1] in digits:
            want = "mul" if digits[nxt[1]] else "add"
            role = "a count (digits only)" if digits[nxt[1]] else "the next summand"
        elif nxt == ("lit", "("):
            want, role = "add", "a parenthesised summand"
        else:
            continue
        what = f"{cell}: the operator inserted before {role} is the {'multiplication' if want == 'mul' else 'addition'}"
        if p[1] == syms.get(want):
            ctx.holds(rel, qual, what, detail=pieces)
        elif p[1] in syms.values():
            ctx.violated(rel, qual, what, detail={"emitted": pieces, "inserted": p[1]}, expected=syms.get(want))
        else:
            ctx.form(False, rel, qual, what, detail=pieces)


def r2_conservation(ctx):
    n = nb = 0
    for rel, qual in ((SS, "SubstanceSolver.preprocess"), (MS, "MaterialSolver.preprocess")):
        for call, pat, repl, mod in _sub_calls(ctx, rel, qual):
            elems, ng = top_level(pat)
            n += 1
            if isinstance(repl, str):
                import re as _re
                pieces = []
                for part in _re.split(r"(\\g<\d+>|\\\d)", repl):
                    if not part:
                        continue
                    m = _re.match(r"\\g<(\d+)>|\\(\d)", part)
                    pieces.append(("g", int(m.group(1) or m.group(2))) if m else ("lit", part))
                used = {p[1] for p in pieces if p[0] == "g"}
                probs = _conserved(_cover(elems, used), pieces, {})
                nb += 1
                ctx.check(not probs, rel, qual, f"template replacement of /{pat[:40]}/ conserves the matched text", detail=probs or None)
                continue
            mvar = repl.args.args[0].arg
            used = {c.args[0].value for c in ast.walk(repl) if isinstance(c, ast.Call) and isinstance(c.func, ast.Attribute)
                    and c.func.attr == "group" and c.args and isinstance(c.args[0], ast.Constant)}
            tested = sorted({c.args[0].value for st in ast.walk(repl) if isinstance(st, ast.If) for c in ast.walk(st.test)
                             if isinstance(c, ast.Call) and isinstance(c.func, ast.Attribute) and c.func.attr == "group"
                             and c.args and isinstance(c.args[0], ast.Constant)})
            seq = _cover(elems, used)
            nullable = {}

            def collect(es):
                for e in es:
                    if e.kind == "group":
                        nullable[e.group] = e.nullable
                    collect(e.children)
            collect(elems)
            import itertools
            for bits in itertools.product([True, False], repeat=len(tested)):
                val = dict(zip(tested, bits))
                if any(v is False and nullable.get(g) is False for g, v in val.items()):
                    continue          # a group that cannot be empty is not empty
                h = ReplHandler(mvar, val)
                cell = f"callback {repl.name}@{repl.lineno - call.lineno:+d} groups non-empty={ {g for g, v in val.items() if v} or '{}' }"
                cell = f"callback {repl.name} for /{pat[:30]}/ with non-empty groups {sorted(g for g, v in val.items() if v)}"
                try:
                    run_block(repl.body, h)
                    if h.ret is None:
                        raise Unrecognised("no return on this branch")
                    pieces = _pieces(ctx, mod, h.ret, mvar)
                except Unrecognised as e:
                    ctx.unrecognised(rel, qual, cell, str(e))
                    continue
                nb += 1
                _operator_roles(ctx, rel, qual, cell, pieces, elems)
                probs = _conserved(seq, pieces, val)
                ctx.check(not probs, rel, qual, cell, detail={"emitted": pieces, "problems": probs} if probs else pieces,
                          expected=f"every element of {seq} re-emitted in order, or proven empty, or whitespace replaced by an operator")
    ctx.floor("re.sub rewrites", n, 7)
    ctx.floor("callback branches", nb, 11)


def r1_agreement(ctx):
    K.duplicate_dict_keys(ctx, ['src/scinumtools/materials/periodic_table.py'], 'isotope and element tables')
    cfgs = {c.relpath: c for c in all_configs(ctx.repo) if c.relpath in (SS, MS)}
    for rel, qual in ((SS, "SubstanceSolver.preprocess"), (MS, "MaterialSolver.preprocess")):
        cfg = cfgs.get(rel)
        if cfg is None:
            ctx.unrecognised(rel, qual, "solver configuration", "no ExpressionSolver construction found")
            continue
        steps = [(t, tuple(o)) for t, o in cfg.steps]
        ctx.check(steps == [("ARGS", ("par",)), ("BINARY", ("mul",)), ("BINARY", ("add",))], rel, cfg.qual,
                  "steps are parenthesis, then multiplication, then addition", detail=steps)
        fn = ctx.fn(rel, qual)
        mod = ctx.repo.module(rel)
        refs = {}
        for a in ast.walk(fn):
            if isinstance(a, ast.Attribute) and a.attr == "symbol" and isinstance(a.value, ast.Name):
                refs.setdefault(a.value.id, 0)
                refs[a.value.id] += 1
        configured = {v.name: k for k, v in cfg.operators.items()}
        for cname in sorted(refs):
            ctx.check(cname in configured, rel, qual, f"inserted symbol {cname}.symbol belongs to a configured operator class",
                      detail=sorted(configured), expected="the rewriter and the solver use the same class attribute")
        syms = {k: cfg.symbol(ctx.repo, v) for k, v in cfg.operators.items()}
        ctx.check(syms.get("add", "").strip() == "+" and syms.get("mul", "").strip() == "*", rel, cfg.qual,
                  "configured symbols are + and * (blank-delimited)", detail=syms)
        # literal operator text inside template replacements equals the configured symbol
        for call, pat, repl, _ in _sub_calls(ctx, rel, qual):
            if isinstance(repl, str):
                import re as _re
                lits = [p for p in _re.split(r"\\g<\d+>|\\\d", repl) if p]
                ctx.check(all(l in syms.values() for l in lits), rel, qual, f"template text {lits} is a configured operator symbol",
                          detail={"template": repl, "symbols": syms})


def r3_accumulation(ctx):
    fn = ctx.fn(CO, "Composite.add")
    body = K.body_nodoc(fn)
    ifs = [s for s in body if isinstance(s, ast.If) and norm(s.test) == "expr in self.components"]
    if len(ifs) != 1:
        ctx.unrecognised(CO, "Composite.add", "existing/new decision", "`if expr in self.components` not found")
    else:
        i = ifs[0]
        ex = [s for s in i.body if isinstance(s, ast.AugAssign)]
        ok = len(ex) == 1 and norm(ex[0].target) == "self.components[expr].proportion" and isinstance(ex[0].op, ast.Add) and norm(ex[0].value) == "proportion"
        ctx.check(ok, CO, "Composite.add", "existing species: count += given count", detail=[norm(s) for s in i.body],
                  expected="self.components[expr].proportion += proportion")
        nw = [s for s in i.orelse if isinstance(s, ast.Assign) and norm(s.targets[0]) == "self.components[expr]"]
        ok = len(nw) == 1 and isinstance(nw[0].value, ast.Call) and norm(nw[0].value.func) == "self.component_class" and \
            norm(nw[0].value.args[0]) == "expr" and any(k.arg == "proportion" and norm(k.value) == "proportion" for k in nw[0].value.keywords)
        ctx.check(ok, CO, "Composite.add", "new species: created with the given count", detail=[norm(s) for s in i.orelse])
        # normalisation on every path
        top_norm = [s for s in body if norm(s) == "self._norm()"]
        after = bool(top_norm) and body.index(top_norm[-1]) > body.index(i)
        in_both = any(norm(s) == "self._norm()" for s in i.body) and any(norm(s) == "self._norm()" for s in i.orelse)
        ctx.check(after or in_both, CO, "Composite.add", "totals are re-normalised on every path after the counts changed",
                  detail=[norm(s) for s in body if "_norm" in norm(s)],
                  expected="self._norm() after the if/else (or in both branches)")
    fn = ctx.fn(CO, "Composite._multiply")
    calls = [norm(c) for c in ast.walk(fn) if isinstance(c, ast.Call) and norm(c.func) == "composite.add"]
    loops = [norm(l.iter) for l in ast.walk(fn) if isinstance(l, ast.For)]
    ctx.form(calls == ["composite.add(expr, component.proportion * other)"] and loops == ["self.components.items()"], CO, "Composite._multiply",
              "every species count is multiplied by the factor", detail={"calls": calls, "loops": loops})
    fn = ctx.fn(CO, "Composite._add")
    calls = [norm(c) for c in ast.walk(fn) if isinstance(c, ast.Call) and norm(c.func) == "composite.add"]
    loops = [norm(l.iter) for l in ast.walk(fn) if isinstance(l, ast.For)]
    ok = calls.count("composite.add(expr, component.proportion)") == 2 and "composite.add(other.expr, other.proportion)" in calls and \
        loops == ["self.components.items()", "other.components.items()"]
    ctx.form(ok, CO, "Composite._add", "all species of both operands are accumulated with their counts", detail={"calls": calls, "loops": loops})
    # results of + and * share no component object with an operand: a component of an operand (the loop variable over
    # <operand>.components) is never stored into the result - it would be changed in place by a later add() on the result
    for q in ("Composite._add", "Composite._multiply"):
        f_ = ctx.fn(CO, q)
        shared = []
        for lp in [l for l in ast.walk(f_) if isinstance(l, ast.For) and ".components" in norm(l.iter)]:
            if isinstance(lp.target, ast.Tuple) and len(lp.target.elts) == 2 and isinstance(lp.target.elts[1], ast.Name):
                comp = lp.target.elts[1].id
            elif isinstance(lp.target, ast.Name) and norm(lp.iter).endswith(".values()"):
                comp = lp.target.id
            else:
                continue
            for a in ast.walk(lp):
                if isinstance(a, ast.Assign) and isinstance(a.value, ast.Name) and a.value.id == comp and any(isinstance(t, ast.Subscript) and ".components" in norm(t.value) for t in a.targets):
                    shared.append(norm(a))
                if isinstance(a, ast.Call) and isinstance(a.func, ast.Attribute) and a.func.attr in ("update", "setdefault") and ".components" in norm(a.func.value) \
                        and any(isinstance(x, ast.Name) and x.id == comp for arg in a.args for x in ast.walk(arg)):
                    shared.append(norm(a))
        ctx.check(not shared, CO, q, "the result shares no component object with an operand", detail=shared or None,
                  expected="composite.add(expr, component.proportion) builds a new component")
    # constructor: every solved species is taken over; dict form goes through add()
    fn = ctx.fn(CO, "Composite.__init__")
    s = norm(fn)
    ctx.form("for expr, component in ms.solve(expr).components.items(): self.components[expr] = component" in s.replace("\n", " ")
             and "for expr, frac in expr.items(): self.add(expr, frac)" in s.replace("\n", " ") and s.rstrip().endswith("self._norm()"),
             CO, "Composite.__init__", "species of the solved formula are taken over and the totals normalised")
    for rel, q, want in ((SU, "Substance.__mul__", "return self._multiply(Substance(natural=self.natural), other)"),
                         (SU, "Substance.__add__", "return self._add(Substance(natural=self.natural), other)")):
        fn = ctx.fn(rel, q)
        # positive evidence first: an arithmetic method that hands back one of its operands (a `return self` fast path
        # for a factor of one, `return other` for an empty left side) makes the result and the operand one object, and
        # a later add() on either changes both
        params = {a.arg for a in fn.args.args}
        handed = [norm(r_) for r_ in walk_no_nested(fn) if isinstance(r_, ast.Return) and isinstance(r_.value, ast.Name) and r_.value.id in params]
        if handed:
            ctx.violated(rel, q, "the result of arithmetic is a new object, never an operand", detail=handed[0], expected=want)
            continue
        ctx.form([norm(x) for x in K.body_nodoc(fn)] == [want], rel, q, "arithmetic builds a fresh substance in the same isotope mode")
    # the same for every arithmetic method of the three classes
    nar = 0
    for rel, cname in ((EL, "Element"), (SU, "Substance"), (MA, "Material"), (CO, "Composite")):
        try:
            c_ = ctx.repo.cls(rel, cname)
        except Exception:
            continue
        for mname in ("__mul__", "__rmul__", "__add__", "__radd__", "_add", "_multiply"):
            fn = methods(c_).get(mname)
            if fn is None or (cname == "Substance" and mname in ("__mul__", "__add__")):
                continue
            nar += 1
            params = [a.arg for a in fn.args.args]
            operands = set(params) if mname.startswith("__") else {params[0]} | set(params[2:])   # _add/_multiply fill their second parameter, the fresh composite
            handed = [norm(r_) for r_ in walk_no_nested(fn) if isinstance(r_, ast.Return) and isinstance(r_.value, ast.Name) and r_.value.id in operands]
            if handed:
                ctx.violated(rel, f"{cname}.{mname}", "the result of arithmetic is a new object, never an operand", detail=handed[0], expected="a new composite / element")
            else:
                ctx.holds(rel, f"{cname}.{mname}", "the result of arithmetic is a new object, never an operand")
    ctx.floor("arithmetic methods of the materials classes", nar, 6)
    # the isotope mode travels with every object arithmetic creates: a constructor call of the own class inside
    # __mul__/__add__/__rmul__ names `natural=self.natural` (the default would silently switch the copy to natural means)
    nmode = 0
    for rel, cname in ((EL, "Element"), (SU, "Substance")):
        c = ctx.repo.cls(rel, cname)
        for mname in ("__mul__", "__rmul__", "__add__", "__radd__"):
            fn = methods(c).get(mname)
            if fn is None:
                continue
            me = fn.args.args[0].arg
            for call in [x for x in ast.walk(fn) if isinstance(x, ast.Call) and dotted_name(x.func) == cname]:
                nmode += 1
                kw = {k.arg: norm(k.value) for k in call.keywords}
                if cname == "Element":
                    first = norm(call.args[0]) if call.args else kw.get("expr")
                    w2 = "a scaled or summed species is re-created from its full expression (symbol with isotope / charge suffix)"
                    if first == f"{me}.expr":
                        ctx.holds(rel, f"{cname}.{mname}", w2, detail=norm(call)[:100])
                    elif first == f"{me}.element":
                        ctx.violated(rel, f"{cname}.{mname}", w2, detail=norm(call)[:100], expected=f"{cname}({me}.expr, ...): {me}.element is the bare symbol")
                    else:
                        ctx.form(False, rel, f"{cname}.{mname}", w2, detail=norm(call)[:100])
                what = "arithmetic keeps the isotope mode of its operand"
                if kw.get("natural") == f"{me}.natural" or (None in kw):
                    ctx.holds(rel, f"{cname}.{mname}", what, detail=norm(call)[:100])
                elif "natural" not in kw and len(call.args) < 3:
                    ctx.violated(rel, f"{cname}.{mname}", what, detail=norm(call)[:100], expected=f"natural={me}.natural")
                else:
                    ctx.form(False, rel, f"{cname}.{mname}", what, detail=norm(call)[:100])
    ctx.floor("constructor calls in species arithmetic", nmode, 4)
    # the formula text of a composite grows with every component that is added
    for rel, cname in ((SU, "Substance"), (MA, "Material")):
        fn = methods(ctx.repo.cls(rel, cname)).get("_add_expr")
        if fn is None:
            continue
        w3 = "the formula text accumulates: adding a component appends to it"
        stores = [a for a in ast.walk(fn) if isinstance(a, (ast.Assign, ast.AugAssign)) and norm(a.targets[0] if isinstance(a, ast.Assign) else a.target) == "self.expr"]
        if not stores:
            ctx.form(False, rel, f"{cname}._add_expr", w3, detail="no write to self.expr")
        for a in stores:
            if isinstance(a, ast.AugAssign) and isinstance(a.op, ast.Add):
                ctx.holds(rel, f"{cname}._add_expr", w3, detail=norm(a)[:90])
            elif isinstance(a, ast.Assign) and any(norm(x) == "self.expr" for x in ast.walk(a.value)):
                ctx.holds(rel, f"{cname}._add_expr", w3, detail=norm(a)[:90])
            elif isinstance(a, ast.Assign):
                ctx.violated(rel, f"{cname}._add_expr", w3, detail=norm(a)[:90], expected="self.expr += ...: only the last component would be left")
            else:
                ctx.form(False, rel, f"{cname}._add_expr", w3, detail=norm(a)[:90])
    # classes stored in the same `component_class` slot are constructed by the same callers: the parameters they share
    # come in the same order
    sigs = {}
    for rel, cname in ((EL, "Element"), (SU, "Substance")):
        init = methods(ctx.repo.cls(rel, cname)).get("__init__")
        if init is not None:
            sigs[cname] = [a.arg for a in init.args.args[1:]]
    if len(sigs) == 2:
        a, b = sigs["Element"], sigs["Substance"]
        shared = [x for x in a if x in b]
        w4 = "component classes (one slot: component_class) take their shared parameters in the same order"
        if shared == [x for x in b if x in a]:
            ctx.holds(EL, "Element.__init__", w4, detail={"Element": a, "Substance": b})
        else:
            ctx.violated(SU, "Substance.__init__", w4, detail={"Element": a, "Substance": b}, expected=f"shared parameters in the order {shared}")
    fn = ctx.fn(SU, "Substance.data_composite")
    src = norm(fn)
    for col, f in (("mass", "m.mass"), ("Z", "m.Z"), ("N", "m.N"), ("e", "m.e")):
        ctx.check(f"'{col}': m.proportion * {f}" in src, SU, "Substance.data_composite", f"total {col} is count-weighted", detail=None)


def _rewrite(expr, mapping):
    """Replace sub-expressions (by normalised text) with names."""
    from ..normalise import clone

    class T(ast.NodeTransformer):
        def visit(self, n):
            if isinstance(n, ast.expr):
                k = norm(n)
                if k in mapping:
                    return ast.Name(id=mapping[k], ctx=ast.Load())
            return self.generic_visit(n)
    return T().visit(clone(expr))


def _abundance_sums_off_one(ctx):
    """Elements of the isotope table whose natural abundances do not sum to 1 (within 1e-6); None if the table is not a
    literal.  Read from the source of periodic_table.py, nothing is imported."""
    try:
        mod = ctx.repo.module(MAT + "periodic_table.py")
        for st in mod.tree.body:
            if isinstance(st, ast.Assign) and isinstance(st.targets[0], ast.Name) and st.targets[0].id == "PT_DATA":
                d = ast.literal_eval(st.value)
                return sorted(k for k, row in d.items() if abs(sum(v[1] for v in row[1].values()) - 1.0) > 1e-6)
    except Exception:
        return None
    return None


def r4_species(ctx):
    from ..flowexpr import paths
    fn = ctx.fn(EL, "Element.get_isotope")
    pa = [a.arg for a in fn.args.args]
    if len(pa) != 4:
        ctx.unrecognised(EL, "Element.get_isotope", "signature", f"parameters {pa}")
        return
    _, p_el, p_iso, p_ion = pa
    ROW = f"PERIODIC_TABLE[{p_el}]"
    ps = paths(fn)
    good = [q for q in ps if q.status == "return"]
    ret = None
    if len(good) == 1:
        ret = [e for e in good[0].events if e.kind == "return"][-1].resolved
    if not (isinstance(ret, ast.Tuple) and len(ret.elts) == 7):
        ctx.unrecognised(EL, "Element.get_isotope", "formula N", "assignment not found / not symbolic")
        return
    NA_, A_, Z_, N_, e_, ISO, ION = ret.elts
    mapping = {norm(ISO): "A", norm(ION): "q", f"{ROW}.Z": "Z"}
    A, Z, q = Term.sym("A"), Term.sym("Z"), Term.sym("q")
    for name, expr, want in (("N", N_, A - Z), ("e", e_, Z + q), ("Z", Z_, Z)):
        try:
            g = SymEval({}).ev(_rewrite(expr, mapping))
        except NotSymbolic:
            ctx.unrecognised(EL, "Element.get_isotope", f"formula {name}", "assignment not found / not symbolic")
            continue
        if g.atoms() - {"A", "Z", "q"}:
            ctx.unrecognised(EL, "Element.get_isotope", f"formula {name}", f"term {g.key()} has parts the abstraction does not interpret")
            continue
        ctx.check(g.equals(want), EL, "Element.get_isotope", f"{name} formula", detail=g.key(), expected=want.key())
    iso_forms = (f"{p_iso} if {p_iso} else {ROW}.Z * 2", f"{p_iso} or {ROW}.Z * 2")
    ion_forms = (f"{p_ion} if {p_ion} else 0", f"{p_ion} or 0")
    ctx.form(norm(ISO) in iso_forms and norm(ION) in ion_forms, EL, "Element.get_isotope",
             "defaults: mass number 2Z and neutral atom when not requested", detail=[norm(ISO), norm(ION)])
    cell = f"{ROW}.A[str({norm(ISO)})]"
    want_A = f"Quantity({cell}[0], Units.ATOMIC_MASS) + Quantity({norm(ION)}, '[m_e]')"
    got_A = norm(A_)
    if got_A == want_A:
        ctx.holds(EL, "Element.get_isotope", "mass = isotope mass + charge number * electron mass", detail="Quantity(M, Units.ATOMIC_MASS) + Quantity(ion, '[m_e]')")
    elif isinstance(A_, ast.BinOp) and all(isinstance(x, ast.Call) and dotted_name(x.func) == "Quantity" for x in (A_.left, A_.right)) or \
            (isinstance(A_, ast.Call) and dotted_name(A_.func) == "Quantity"):
        # a differently spelled but possibly equivalent term: only a changed unit or a missing electron term is evidence
        units = sorted({norm(c.args[1]) for c in ast.walk(A_) if isinstance(c, ast.Call) and dotted_name(c.func) == "Quantity" and len(c.args) == 2})
        if isinstance(A_, ast.BinOp) and isinstance(A_.op, ast.Add) and units == ["'[m_e]'", "Units.ATOMIC_MASS"] and norm(ION) in norm(A_.right):
            ctx.unrecognised(EL, "Element.get_isotope", "mass = isotope mass + charge number * electron mass", f"mass term spelled differently: {got_A[:160]}")
        else:
            ctx.violated(EL, "Element.get_isotope", "mass = isotope mass + charge number * electron mass", detail=got_A[:200], expected=want_A[:200])
    else:
        ctx.unrecognised(EL, "Element.get_isotope", "mass = isotope mass + charge number * electron mass", f"mass term {got_A[:160]}")
    err = [q for q in ps if q.status == "raise" and any(norm(t.resolved) == f"str({norm(ISO)}) not in {ROW}.A" and t.extra for t in q.tests())]
    ok_not = all(any(norm(t.resolved) == f"str({norm(ISO)}) not in {ROW}.A" and not t.extra for t in q.tests()) for q in good)
    ctx.form(bool(err) and ok_not and norm(NA_) == f"{cell}[1]", EL, "Element.get_isotope", "unknown isotope is an error; data come from the table row",
             detail=[norm(NA_)[:80]])
    # most abundant: argmax over values, index into keys in the same order
    fn = ctx.fn(EL, "Element.get_abundant")
    pa = [a.arg for a in fn.args.args]
    ROW = f"PERIODIC_TABLE[{pa[1]}]" if len(pa) > 1 else "?"
    rets = [e.resolved for q in paths(fn) for e in q.events if e.kind == "return"]
    arg = [c for r in rets for c in ast.walk(r) if isinstance(c, ast.Call) and dotted_name(c.func) in ("np.argmax", "numpy.argmax")]
    keys = [c for r in rets for c in ast.walk(r) if isinstance(c, ast.Subscript) and any(x is arg[0] for x in ast.walk(c.slice))] if arg else []
    if len(arg) != 1 or len(keys) != 1 or not arg[0].args:
        ctx.unrecognised(EL, "Element.get_abundant", "arg-max", "argmax/index idiom not found")
    else:
        vals, ks = arg[0].args[0], keys[0].value
        a_src, k_src = norm(vals), norm(ks)
        col = None
        if isinstance(vals, (ast.ListComp, ast.GeneratorExp)) and len(vals.generators) == 1 and not vals.generators[0].ifs \
                and norm(vals.generators[0].iter) == f"{ROW}.A.values()" and isinstance(vals.elt, ast.Subscript) \
                and norm(vals.elt.value) == norm(vals.generators[0].target) and isinstance(vals.elt.slice, ast.Constant):
            col = vals.elt.slice.value
        elif isinstance(vals, (ast.ListComp, ast.GeneratorExp)) and len(vals.generators) == 1 and not vals.generators[0].ifs \
                and norm(vals.generators[0].iter) == f"{ROW}.A.values()" and isinstance(vals.generators[0].target, ast.Tuple) and isinstance(vals.elt, ast.Name):
            names = [norm(x) for x in vals.generators[0].target.elts]
            col = names.index(vals.elt.id) if vals.elt.id in names else None       # [NA for M, NA in row.A.values()]
        k_ok = k_src in (f"list({ROW}.A.keys())", f"list({ROW}.A)") or (
            isinstance(ks, ast.Call) and dotted_name(ks.func) == "list" and len(ks.args) == 1 and isinstance(ks.args[0], (ast.GeneratorExp, ast.ListComp))
            and len(ks.args[0].generators) == 1 and not ks.args[0].generators[0].ifs and norm(ks.args[0].elt) == norm(ks.args[0].generators[0].target)
            and norm(ks.args[0].generators[0].iter) in (f"{ROW}.A.keys()", f"{ROW}.A"))
        reordered = any(w in k_src for w in ("sorted(", "reversed(", "set(")) or any(w in a_src for w in ("sorted(", "reversed("))
        if reordered:
            ctx.violated(EL, "Element.get_abundant", "abundances and mass numbers are enumerated in the same order",
                         detail={"abundances": a_src, "mass_numbers": k_src},
                         expected="both from isotopes.A in table order (string keys do not sort numerically: '100' < '92')")
        elif col is not None and k_ok:
            ctx.holds(EL, "Element.get_abundant", "abundances and mass numbers are enumerated in the same order",
                      detail={"abundances": a_src, "mass_numbers": k_src})
        else:
            ctx.unrecognised(EL, "Element.get_abundant", "arg-max alignment", f"{a_src} / {k_src}")
        if col is None:
            ctx.unrecognised(EL, "Element.get_abundant", "the maximised column is the abundance (second entry)", f"maximised list is {a_src}")
        else:
            ctx.check(col == 1, EL, "Element.get_abundant", "the maximised column is the abundance (second entry)", detail=a_src)
    fn = ctx.fn(EL, "Element.get_natural")
    pa = [a.arg for a in fn.args.args]
    ROW = f"PERIODIC_TABLE[{pa[1]}]" if len(pa) > 1 else "?"
    qs = [q for q in paths(fn) if q.status == "return"]
    rets = [e.resolved for q in qs for e in q.events if e.kind == "return"]
    cols = None
    wth = [w for w in ast.walk(fn) if isinstance(w, ast.With)]
    rc = None
    if len(wth) == 1 and len(wth[0].items) == 1 and isinstance(wth[0].items[0].optional_vars, ast.Name):
        rc = wth[0].items[0].optional_vars.id
        c = wth[0].items[0].context_expr
        if isinstance(c, ast.Call) and dotted_name(c.func) == "RowCollector" and c.args and isinstance(c.args[0], ast.List):
            cols = [e.value for e in c.args[0].elts if isinstance(e, ast.Constant)]
    if len(rets) != 1 or not isinstance(rets[0], ast.Tuple) or rc is None or cols != ["NA", "A", "Z", "N", "e", "iso", "ion"] or len(rets[0].elts) != 7:
        ctx.unrecognised(EL, "Element.get_natural", "weighted means", "return tuple / RowCollector columns not recognised")
    else:
        el = rets[0].elts
        for i, col in ((1, "A"), (2, "Z"), (3, "N"), (4, "e"), (5, "iso")):
            c = el[i]
            if isinstance(c, ast.Call) and dotted_name(c.func) in ("np.average", "numpy.average") and c.args:
                w = next((k.value for k in c.keywords if k.arg == "weights"), c.args[2] if len(c.args) > 2 else None)
                ctx.check(norm(c.args[0]) == f"{rc}.{col}" and w is not None and norm(w) == f"{rc}.NA", EL, "Element.get_natural",
                          f"{col} is the abundance-weighted mean", detail=norm(c)[:100], expected=f"np.average({rc}.{col}, weights={rc}.NA)")
            elif isinstance(c, ast.Call) and dotted_name(c.func) in ("np.mean", "numpy.mean", "np.sum", "np.median"):
                ctx.violated(EL, "Element.get_natural", f"{col} is the abundance-weighted mean", detail=norm(c)[:100], expected=f"np.average({rc}.{col}, weights={rc}.NA)")
            elif isinstance(c, ast.Call) and dotted_name(c.func) in ("np.dot", "numpy.dot", "np.inner", "np.vdot") and len(c.args) == 2 \
                    and {norm(c.args[0]), norm(c.args[1])} == {f"{rc}.{col}", f"{rc}.NA"}:
                # sum(x*w) is the mean only where the weights sum to one: read the abundance column of the table itself
                off = _abundance_sums_off_one(ctx)
                if off is None:
                    ctx.unrecognised(EL, "Element.get_natural", f"{col} is the abundance-weighted mean", "isotope table not a literal")
                elif off:
                    ctx.violated(EL, "Element.get_natural", f"{col} is the abundance-weighted mean",
                                 detail=f"{norm(c)[:60]}: a weighted sum without the division by the sum of the weights; {len(off)} table rows have abundances that do not sum to 1 (e.g. {', '.join(off[:4])})",
                                 expected=f"np.average({rc}.{col}, weights={rc}.NA)")
                else:
                    ctx.holds(EL, "Element.get_natural", f"{col} is the abundance-weighted mean", detail="weights sum to one in every table row")
            else:
                ctx.unrecognised(EL, "Element.get_natural", f"{col} is the abundance-weighted mean", f"column term {norm(c)[:100]}")
        loops = [e for e in qs[0].events if e.kind == "loop"]
        body = [norm(e.resolved) for e in qs[0].events if e.kind == "expr" and e.extra is None]
        ok = len(loops) == 1 and norm(loops[0].resolved) in (f"{ROW}.A.keys()", f"{ROW}.A") and \
            f"{rc}.append(self.get_isotope({pa[1]}, int({loops[0].extra}@loop1), {pa[2]}))" in body
        ctx.form(ok, EL, "Element.get_natural", "every tabulated isotope enters the mean", detail=body[:2])
    # suffix ladder: decision table over (element spelling, which suffix alternative matched, bare sign) on resolved paths
    from ..flowexpr import consistent
    fn = ctx.fn(EL, "Element.__init__")
    try:
        ips = paths(fn, max_paths=20000)
    except AnalysisError as e:
        ctx.unrecognised(EL, "Element.__init__", "suffix ladder", str(e))
        return
    gsrc = sorted({norm(c) for q in ips for e in q.events if e.resolved is not None for c in ast.walk(e.resolved)
                   if isinstance(c, ast.Call) and isinstance(c.func, ast.Attribute) and c.func.attr == "groups" and "[a-zA-Z]" in norm(c)})
    if len(gsrc) != 1:
        ctx.unrecognised(EL, "Element.__init__", "suffix ladder", "element pattern match not identified")
        return
    G = gsrc[0]
    Mtxt = G[:-len(".groups()")]

    def table(kind, form, sign):
        present = {"iso+ion": (True, True, False, False), "iso": (False, False, True, False), "ion": (False, False, False, True), "none": (False, False, False, False)}[form]

        def atom(e, _depth=[0]):
            k = norm(e)
            if _depth[0] == 0 and isinstance(e, ast.Compare) and any(isinstance(x, ast.BoolOp) for x in ast.walk(e)):
                # `(a or b) == '-'`: pick the operand the presence valuation selects, then decide the comparison
                from ..flowexpr import reduce_ifexp, truth
                pres = lambda x: {f"{G}[{i}]": p_ for i, p_ in zip((2, 3, 4, 5), present)}.get(norm(x))   # noqa: E731
                e2 = reduce_ifexp(e, pres)
                if norm(e2) != k:
                    _depth[0] += 1
                    try:
                        return truth(e2, atom)
                    finally:
                        _depth[0] -= 1
            if k == Mtxt:
                return True
            if isinstance(e, ast.Call) and dotted_name(e.func) == "re.match":
                return False           # the nucleon pattern does not match an element symbol
            for i, p_ in zip((2, 3, 4, 5), present):
                if k == f"{G}[{i}]":
                    return p_
                for sg in ("-", "+"):
                    if k == f"{G}[{i}] == '{sg}'":
                        return p_ and sign == sg
            if k == f"{G}[0] == 'D'":
                return kind == "D"
            if k == f"{G}[0] == 'T'":
                return kind == "T"
            if k in ("self.isotope", "self.natural"):
                return True
            return None
        cs, unk = consistent(ips, atom)
        iso = sorted({norm(e.resolved) for q in cs for e in q.events if e.kind == "store" and e.extra == "self.isotope"} - {"0"})
        ion = sorted({norm(e.resolved) for q in cs for e in q.events if e.kind == "store" and e.extra == "self.ionisation"} - {"0"} | (
            {"0"} if any(e.kind == "store" and e.extra == "self.ionisation" and norm(e.resolved) == "0" for q in cs for e in q.events) else set()))
        el = sorted({norm(e.resolved) for q in cs for e in q.events if e.kind == "store" and e.extra == "self.element"})
        return cs, unk, iso, ion, el
    want = {
        ("iso+ion", None): ([f"int({G}[2])"], [f"int({G}[3])"]),
        ("iso+ion", "-"): ([f"int({G}[2])"], ["int('-1')"]),
        ("iso+ion", "+"): ([f"int({G}[2])"], ["int('1')"]),
        ("iso", None): ([f"int({G}[4])"], ["0"]),
        ("ion", None): (["None"], [f"int({G}[5])"]),
        ("ion", "-"): (["None"], ["int('-1')"]),
        ("none", None): (["None"], ["0"]),
    }
    for (form, sign), (wi, wn) in want.items():
        cs, unk, iso, ion, el = table("other", form, sign)
        # the first store on the path is the ladder's (later stores come from the isotope lookup)
        first = [(next((norm(e.resolved) for e in q.events if e.kind == "store" and e.extra == "self.isotope"), None),
                  next((norm(e.resolved) for e in q.events if e.kind == "store" and e.extra == "self.ionisation"), None)) for q in cs]
        ok = bool(cs) and not unk and all(f == (wi[0], wn[0]) for f in first)
        ctx.form(ok, EL, "Element.__init__", f"suffix form {form}{' with a bare sign ' + sign if sign else ''} sets (isotope, charge) = ({wi[0]}, {wn[0]})".replace(G, "groups"),
                 detail=sorted(set(first))[:2] or sorted(set(unk))[:2])
    for kind, a in (("D", 2), ("T", 3)):
        cs, unk, iso, ion, el = table(kind, "none", None)
        first = [next((norm(e.resolved) for e in q.events if e.kind == "store" and e.extra == "self.isotope"), None) for q in cs]
        ctx.form(bool(cs) and not unk and el == ["'H'"] and all(f == f"int({a})" for f in first), EL, "Element.__init__", f"{kind} is hydrogen {a}", detail=[el, sorted(set(first))])
        # the short symbols accept the same charge suffixes as H{2} / H{3}: the charge must not be dropped
        for form, gi in (("ion", 5), ("iso+ion", 3)):
            cs, unk, iso, ion, el = table(kind, form, None)
            from ..flowexpr import reduce_ifexp
            present = {"iso+ion": (True, True, False, False), "ion": (False, False, False, True)}[form]
            at = lambda e_, _p=present: {f"{G}[{i}]": v for i, v in zip((2, 3, 4, 5), _p)}.get(norm(e_))   # noqa: E731
            pairs = sorted({(next((norm(reduce_ifexp(e.resolved, at)) for e in q.events if e.kind == "store" and e.extra == "self.isotope"), None),
                             next((norm(reduce_ifexp(e.resolved, at)) for e in q.events if e.kind == "store" and e.extra == "self.ionisation"), None)) for q in cs})
            if unk or not cs:
                ctx.unrecognised(EL, "Element.__init__", f"{kind} with a charge suffix ({form}) keeps the charge", f"tests not decided: {sorted(set(unk))[:2]}")
                continue
            want = (f"int({a})", f"int({G}[{gi}])")
            what = f"{kind} with a charge suffix ({form}) keeps the charge"
            dropped = [p_ for p_ in pairs if p_[1] in ("0", "int(0)", "None", None)]
            wrong_iso = [p_ for p_ in pairs if p_[0] is not None and p_[0] not in (f"int({a})", str(a))]
            if pairs == [want]:
                ctx.holds(EL, "Element.__init__", what)
            elif dropped or wrong_iso:
                ctx.violated(EL, "Element.__init__", what, detail=[list(p_) for p_ in (dropped or wrong_iso)], expected=[f"int({a})", f"int(groups[{gi}])"])
            else:
                ctx.form(False, EL, "Element.__init__", what, detail=[[str(x)[:80] for x in p_] for p_ in pairs])
    # the lookups receive the parsed fields in the roles their parameters name: isotope number and charge are both small
    # integers (or None), so passing one for the other type-checks and silently drops or misplaces the charge
    ROLE = {"iso": "self.isotope", "isotope": "self.isotope", "A": "self.isotope", "ion": "self.ionisation", "ionisation": "self.ionisation", "charge": "self.ionisation",
            "element": "self.element", "Z": None}
    c_el = ctx.repo.cls(EL, "Element")
    for getter in ("get_isotope", "get_natural", "get_abundant"):
        callee = methods(c_el).get(getter)
        if callee is None:
            continue
        pnames = [a.arg for a in callee.args.args[1:]]
        for call in [c for c in ast.walk(fn) if isinstance(c, ast.Call) and norm(c.func) == f"self.{getter}"]:
            for pn, arg in list(zip(pnames, call.args)) + [(k.arg, k.value) for k in call.keywords if k.arg]:
                wantf = ROLE.get(pn)
                got = norm(arg)
                what = f"{getter}() receives the parsed {pn} in the parameter {pn}"
                if wantf is None:
                    continue
                if got == wantf:
                    ctx.holds(EL, "Element.__init__", what)
                elif got in ("self.isotope", "self.ionisation", "self.element"):
                    ctx.violated(EL, "Element.__init__", what, detail=f"{norm(call)[:80]}: parameter {pn} receives {got}", expected=wantf)
                else:
                    ctx.form(False, EL, "Element.__init__", what, detail=got)
    # which isotope data are looked up: a table over (isotope given, natural mode) read from the paths
    from ..flowexpr import paths as _paths
    what = "explicit isotope > natural mean > most abundant isotope"
    ISO = {"self.isotope": True, "self.isotope is not None": True, "self.isotope is None": False}
    NAT = {"self.natural": True}
    cells, undecided = {}, 0
    for q in _paths(fn):
        if q.status == "raise":
            continue
        txt = " ".join(norm(e.resolved) for e in q.events if e.resolved is not None and isinstance(e.resolved, ast.AST))
        got = tuple(g for g in ("get_isotope", "get_natural", "get_abundant") if f"self.{g}(" in txt)
        if not got:
            continue          # nucleon branch etc.: no isotope table involved
        iso = nat = None
        for t in q.tests():
            k = norm(t.resolved)
            if k in ISO:
                iso = t.extra == ISO[k]
            if k in NAT:
                nat = t.extra == NAT[k]
        if iso is None or (iso is False and nat is None):
            undecided += 1
            continue
        cells.setdefault((iso, nat if not iso else None), set()).add(got)
    wantc = {(True, None): {("get_isotope",)}, (False, True): {("get_natural",)}, (False, False): {("get_abundant",)}}
    bad = {str(k): sorted(v) for k, v in cells.items() if v != wantc.get(k)}
    if bad:
        ctx.violated(EL, "Element.__init__", what, detail={"(isotope given, natural mode) -> lookups": bad}, expected={str(k): sorted(v) for k, v in wantc.items()})
    else:
        ctx.form(set(cells) == set(wantc) and not undecided, EL, "Element.__init__", what, detail={"cells": sorted(map(str, cells)), "paths without the two tests": undecided})


def r5_group_indices(ctx):
    n = 0
    for rel in (SS, MS, EL, SU, MA, CO):
        mod = ctx.repo.module(rel)
        for fn in [f for f in ast.walk(mod.tree) if isinstance(f, (ast.FunctionDef, ast.AsyncFunctionDef))]:
            env = _local_strings(ctx, mod, fn)
            for node in walk_no_nested(fn):
                if isinstance(node, ast.NamedExpr) and isinstance(node.value, ast.Call) and dotted_name(node.value.func) in ("re.match", "re.search") \
                        and node.value.args:
                    try:
                        pat = Evaluator(ctx.repo, mod, env).ev(node.value.args[0])
                    except AnalysisError:
                        continue
                    ng = group_count(pat)
                    var = node.target.id
                    # uses inside the statement guarded by this match
                    owner = node
                    while not isinstance(owner, ast.stmt):
                        owner = owner._parent
                    # a match bound in an `if (m := ...)` test governs that branch only (elif re-binds the name)
                    scope = owner.body if isinstance(owner, ast.If) and any(x is node for x in ast.walk(owner.test)) else [owner]
                    used = []
                    for c in [x for blk in scope for x in ast.walk(blk)]:
                        if isinstance(c, ast.Call) and isinstance(c.func, ast.Attribute) and norm(c.func.value) == var:
                            if c.func.attr == "group" and c.args and isinstance(c.args[0], ast.Constant):
                                used.append(c.args[0].value)
                            if c.func.attr == "groups":
                                tgt = c._parent
                                if isinstance(tgt, ast.Assign) and isinstance(tgt.targets[0], ast.Tuple):
                                    n += 1
                                    ctx.check(len(tgt.targets[0].elts) == ng, rel, qualname(fn), f"m.groups() unpacked into {len(tgt.targets[0].elts)} names",
                                              detail=ng, expected=f"{ng} groups in /{pat[:40]}/")
                    for k in used:
                        n += 1
                        ctx.check(0 <= k <= ng, rel, qualname(fn), f"m.group({k}) exists in /{pat[:40]}/", detail=ng)
    for rel, qual in ((SS, "SubstanceSolver.preprocess"), (MS, "MaterialSolver.preprocess")):
        for call, pat, repl, mod in _sub_calls(ctx, rel, qual):
            ng = group_count(pat)
            if isinstance(repl, str):
                continue
            for c in ast.walk(repl):
                if isinstance(c, ast.Call) and isinstance(c.func, ast.Attribute) and c.func.attr == "group" and c.args and isinstance(c.args[0], ast.Constant):
                    n += 1
                    ctx.check(0 <= c.args[0].value <= ng, rel, qual, f"{repl.name}: m.group({c.args[0].value}) exists in /{pat[:30]}/", detail=ng)
    ctx.floor("group references", n, 20)


def r6_fresh_species(ctx):
    n = 0
    for rel, cname in ((SU, "Substance"), (MA, "Material"), (EL, "Element"), (CO, "Composite"), (CO, "Component"),
                       (MAT + "matter.py", "Matter"), (SS, "SubstanceSolver"), (MS, "MaterialSolver")):
        c = ctx.repo.cls(rel, cname)
        written = _written_class_attrs(ctx.repo.module(rel))
        for st in c.body:
            val = tgt = None
            if isinstance(st, ast.Assign):
                val, tgt = st.value, norm(st.targets[0])
            elif isinstance(st, ast.AnnAssign) and st.value is not None:
                val, tgt = st.value, norm(st.target)
            if val is None:
                continue
            n += 1
            mutable = isinstance(val, (ast.List, ast.Dict, ast.Set, ast.ListComp, ast.DictComp)) or \
                (isinstance(val, ast.Call) and dotted_name(val.func) in ("list", "dict", "set"))
            ctx.check(not (mutable and tgt in written), rel, cname, f"class attribute {tgt} is not a shared container that methods write to",
                      detail=norm(val))
    for rel, q, cls in ((SU, "Substance.atom", "Substance"), (MA, "Material.atom", "Material")):
        fn = ctx.fn(rel, q)
        rets = [r for r in ast.walk(fn) if isinstance(r, ast.Return) and r.value is not None]
        fresh = [r for r in rets if isinstance(r.value, ast.Call) and dotted_name(r.value.func) in (cls, "float")]
        n += 1
        ctx.check(len(fresh) == len(rets) and len(rets) >= 2, rel, q, "every atom of a formula is a freshly built object (or a number)",
                  detail=[norm(r.value)[:60] for r in rets], expected=f"return {cls}(...) / float(...) on every path")
    # module-level containers of the materials modules that a function writes to: state shared between formulas
    MUT = {"append", "extend", "insert", "pop", "remove", "clear", "update", "setdefault", "popitem", "add", "discard", "sort"}
    for rel in ctx.repo.all_py("src/scinumtools/materials"):
        mod = ctx.repo.module(rel)
        glob = {}
        for st in mod.tree.body:
            if isinstance(st, ast.Assign) and len(st.targets) == 1 and isinstance(st.targets[0], ast.Name):
                v = st.value
                if isinstance(v, (ast.List, ast.Dict, ast.Set)) or (isinstance(v, ast.Call) and dotted_name(v.func) in ("list", "dict", "set", "collections.defaultdict", "defaultdict")):
                    glob[st.targets[0].id] = v
        for g in glob:
            writes = []
            for f in [x for x in ast.walk(mod.tree) if isinstance(x, (ast.FunctionDef, ast.AsyncFunctionDef))]:
                local = {a.arg for a in f.args.args} | {t.id for x in ast.walk(f) if isinstance(x, ast.Assign) for t in x.targets if isinstance(t, ast.Name)}
                if g in local:
                    continue
                for x in ast.walk(f):
                    if isinstance(x, ast.Subscript) and isinstance(x.ctx, (ast.Store, ast.Del)) and isinstance(x.value, ast.Name) and x.value.id == g:
                        writes.append(f"{qualname(f)}: {norm(x)} = ...")
                    if isinstance(x, ast.Call) and isinstance(x.func, ast.Attribute) and x.func.attr in MUT and isinstance(x.func.value, ast.Name) and x.func.value.id == g:
                        writes.append(f"{qualname(f)}: {norm(x)[:60]}")
            n += 1
            ctx.check(not writes, rel, "<module>", f"module-level container {g} is not written by functions (a formula's result does not depend on earlier requests)",
                      detail=writes or None)
    ctx.floor("class attributes / atom builders scanned", n, 8)



def _written_class_attrs(mod):
    """Names X such that some function stores into / mutates `<anything>.X[...]`, `<anything>.X.<mutator>()` or rebinds Cls.X."""
    MUT = {"append", "extend", "insert", "pop", "remove", "clear", "update", "setdefault", "popitem", "add", "discard", "sort"}
    out = set()
    for n in ast.walk(mod.tree):
        tg = []
        if isinstance(n, ast.Assign):
            tg = n.targets
        elif isinstance(n, (ast.AugAssign,)):
            tg = [n.target]
        elif isinstance(n, ast.Delete):
            tg = n.targets
        for t in tg:
            if isinstance(t, ast.Subscript) and isinstance(t.value, ast.Attribute):
                out.add(t.value.attr)
        if isinstance(n, ast.Call) and isinstance(n.func, ast.Attribute) and n.func.attr in MUT and isinstance(n.func.value, ast.Attribute):
            out.add(n.func.value.attr)
    return out


def r7_species_token(ctx):
    """Writer/reader agreement on what one species is: every text the Element reader accepts in full (symbol with an
    isotope / charge suffix) must be matched as a single token by the rewriter's species pattern - otherwise no
    implicit operator is inserted after it and the reader (unanchored re.match) silently drops the rest.  Decided by
    exhaustive enumeration of suffixes over a small alphabet against the two regular-expression literals."""
    import itertools
    import re as _re2
    import warnings
    warnings.filterwarnings("ignore")
    pre = ctx.fn(SS, "SubstanceSolver.preprocess")
    el = ctx.fn(EL, "Element.__init__")
    pat = None
    for a in ast.walk(pre):
        if isinstance(a, ast.Assign) and len(a.targets) == 1 and isinstance(a.targets[0], ast.Name) and a.targets[0].id == "pattern":
            try:
                pat = Evaluator(ctx.repo, ctx.repo.module(SS)).ev(a.value)
            except AnalysisError:
                pat = None
    if pat is None:
        subs = [c for c in ast.walk(pre) if isinstance(c, ast.Call) and dotted_name(c.func) == "re.sub" and len(c.args) >= 3 and isinstance(c.args[1], ast.Name)]
        for c in subs:
            try:
                v = Evaluator(ctx.repo, ctx.repo.module(SS)).ev(c.args[0])
                if isinstance(v, str) and "[A-Z]" in v and pat is None:
                    pat = v
            except AnalysisError:
                pass
    epat = None
    for c in ast.walk(el):
        if isinstance(c, ast.Call) and dotted_name(c.func) == "re.match" and c.args:
            try:
                v = Evaluator(ctx.repo, ctx.repo.module(EL)).ev(c.args[0])
            except AnalysisError:
                continue
            if isinstance(v, str) and "[a-zA-Z]" in v:
                epat = v
    if not isinstance(pat, str) or not isinstance(epat, str):
        ctx.unrecognised(SS, "SubstanceSolver.preprocess", "species token", "species pattern of the rewriter / element pattern of the reader not found as literals")
        return
    try:
        tok, rd = _re2.compile(pat), _re2.compile(epat)
    except _re2.error as e:
        ctx.unrecognised(SS, "SubstanceSolver.preprocess", "species token", f"pattern does not compile: {e}")
        return
    bad, n = [], 0
    alphabet = "019+-"
    for sym in ("O", "Fe"):
        for k in range(1, 6):
            for inner in itertools.product(alphabet, repeat=k):
                text = f"{sym}{{{''.join(inner)}}}"
                if rd.fullmatch(text):
                    n += 1
                    if not tok.fullmatch(text):
                        bad.append(text)
    ctx.info["species texts enumerated"] = n
    ctx.floor("species texts accepted by the reader", n, 500, file=EL)
    ctx.check(not bad, SS, "SubstanceSolver.preprocess", "every species text the element reader accepts is one token of the formula rewriter",
              detail=bad[:6] or f"{n} texts", expected="the rewriter's suffix class covers isotope numbers and multi-digit charges")


RULES = [
    ("C10.R1", "rewriter/solver agreement: inserted symbols are attributes of configured operator classes; steps par, mul, add", r1_agreement),
    ("C10.R2", "every replacement callback branch re-emits the matched groups in order (omission only if proven empty, or whitespace replaced by an operator symbol)", r2_conservation),
    ("C10.R3", "count accumulation (+= / new with count), scaling, merging, re-normalisation on every path of add()", r3_accumulation),
    ("C10.R4", "per-species formulas N=A-Z, e=Z+q, mass; natural = abundance-weighted means; most abundant = aligned arg-max; suffix ladder", r4_species),
    ("C10.R5", "every m.group(k)/m.groups() refers to existing groups of its own pattern", r5_group_indices),
    ("C10.R7", "writer/reader agreement on the species token: every symbol{isotope/charge} text the element reader accepts is a single token of the formula rewriter (exhaustive over suffixes up to 5 characters)", r7_species_token),
    ("C10.R6", "species objects are built fresh per parse; no shared mutable class-level state in the materials classes", r6_fresh_species),
]
