"""C11 — number and mass fractions. Decided: x_i and X_i have the form t_i / sum_j t_j with the
*same* term t: (R1) the totals per normalisation mode are sum p and sum p*m (number modes),
sum p/m and sum p (mass mode); (R2) in every mode the numerator of x (resp. X) equals the summand
of the total it is divided by — hence sum x = sum X = 1, proportionality to n_i and n_i m_i,
invariance under common scaling and the number/mass duality follow algebraically for all inputs;
(R3) both columns are declared in percent and pass through a unit conversion; (R4) the
normalisation mode and isotope mode survive arithmetic (scaling, adding, atoms of a formula) and
the totals are recomputed whenever a count changes. NOT decided: floating-point summation error,
the avg row."""
import ast

from ..literal import Evaluator
from ..model import AnalysisError, dotted_name, methods, norm, walk_no_nested
from ..predtable import Unrecognised
from ..symexec import NONE, execute
from ..symexpr import NotSymbolic, SymEval, Term
from . import C10
from . import common as K

LEVEL_TEXT = ("static analysis (ast): symbolic extraction of the per-mode totals and of the per-component fraction terms; "
              "the identity numerator = summand makes normalisation, proportionality and scale invariance algebraic facts "
              "for all mixtures, which sampled mixtures cannot establish")
LEVEL_NOTE = "trusted: np.sum over a list comprehension sums its elements; Quantity arithmetic of C06"
TECHNIQUE = "symbolic term extraction and identity checking over ast (static analysis)"

CO = C10.CO
MA = C10.MA
MODES = ("NUMBER", "NUMBER_FRACTION", "MASS_FRACTION")


def _mode_atom(mode):
    """Valuation of the tests on the normalisation mode (structural: ==, !=, in, not in against Norm members)."""
    def atom(e):
        if isinstance(e, ast.Compare) and len(e.ops) == 1 and norm(e.left) == "self.norm_type":
            c = e.comparators[0]
            names = None
            if isinstance(c, (ast.List, ast.Tuple, ast.Set)):
                names = [norm(x) for x in c.elts]
            elif isinstance(c, ast.Attribute):
                names = [norm(c)]
            if names and all(n.startswith("Norm.") for n in names):
                hit = f"Norm.{mode}" in names
                if isinstance(e.ops[0], (ast.Eq, ast.In)):
                    return hit
                if isinstance(e.ops[0], (ast.NotEq, ast.NotIn)):
                    return not hit
        if norm(e) == "type(self) in Component.__subclasses__()":
            return False
        return None
    return atom


def _mode_decider(mode):
    a = _mode_atom(mode)
    return lambda node, h: a(node)


def _summand(v):
    """np.sum([f(i) for i in self.components.values()]) -> term of f over p = i.proportion, m = i.component_mass."""
    if not (isinstance(v, ast.Call) and dotted_name(v.func) in ("np.sum", "sum", "numpy.sum") and len(v.args) == 1
            and isinstance(v.args[0], (ast.ListComp, ast.GeneratorExp))):
        raise Unrecognised(f"not a plain sum: {norm(v)[:120]}")
    comp = v.args[0]
    ALL = ("self.components.values()", "list(self.components.values())")
    if len(comp.generators) != 1 or comp.generators[0].ifs:
        raise Unrecognised(f"sum does not range over all components: {norm(comp)[:120]}")
    g = comp.generators[0]
    env = None
    if isinstance(g.target, ast.Name) and norm(g.iter) in ALL:
        i = g.target.id
        env = {f"{i}.proportion": Term.sym("p"), f"{i}.component_mass": Term.sym("m")}
    elif isinstance(g.target, ast.Tuple) and isinstance(g.iter, ast.Call) and dotted_name(g.iter.func) == "zip" and len(g.iter.args) == len(g.target.elts) \
            and all(isinstance(t, ast.Name) for t in g.target.elts):
        # [f(a, b) for a, b in zip([x.A for x in ALL], [x.B for x in ALL])]: element-wise over the same components
        env = {}
        for t, src in zip(g.target.elts, g.iter.args):
            if not (isinstance(src, (ast.ListComp, ast.GeneratorExp)) and len(src.generators) == 1 and not src.generators[0].ifs
                    and isinstance(src.generators[0].target, ast.Name) and norm(src.generators[0].iter) in ALL):
                env = None
                break
            j = src.generators[0].target.id
            env[t.id] = SymEval({f"{j}.proportion": Term.sym("p"), f"{j}.component_mass": Term.sym("m")}).ev(src.elt)
    if env is None:
        raise Unrecognised(f"sum does not range over all components: {norm(comp)[:120]}")
    t = SymEval(env).ev(comp.elt)
    if t.atoms() - {"p", "m"}:
        raise Unrecognised(f"summand {t.key()} has parts the abstraction does not interpret")
    return t


def totals(ctx, mode):
    """(summand of proportion_norm, summand of composite_mass) as Terms over p, m - read from the resolved stores on
    the paths of Composite._norm consistent with the mode."""
    from ..flowexpr import consistent, paths
    fn = ctx.fn(CO, "Composite._norm")
    ps, unk = consistent(paths(fn), _mode_atom(mode))
    if unk or not ps:
        raise Unrecognised(f"condition not interpretable: {sorted(set(unk))[:1]}")
    out = {}
    for name in ("proportion_norm", "composite_mass"):
        terms = []
        for q in ps:
            st = [e.resolved for e in q.events if e.kind == "store" and e.extra == f"self.{name}"]
            if not st:
                raise Unrecognised(f"self.{name} not assigned in mode {mode}")
            terms.append(_summand(st[-1]))
        if any(not t.equals(terms[0]) for t in terms[1:]):
            raise Unrecognised(f"self.{name}: paths of mode {mode} disagree")
        out[name] = terms[0]
    return out


def r1_totals(ctx):
    p, m = Term.sym("p"), Term.sym("m")
    want = {"NUMBER": (p, p * m), "NUMBER_FRACTION": (p, p * m), "MASS_FRACTION": (p / m, p)}
    for mode in MODES:
        try:
            t = totals(ctx, mode)
        except (Unrecognised, NotSymbolic) as e:
            ctx.unrecognised(CO, "Composite._norm", f"totals in mode {mode}", str(e))
            continue
        ctx.check(t["proportion_norm"].equals(want[mode][0]), CO, "Composite._norm", f"{mode}: summand of the amount total",
                  detail=t["proportion_norm"].key(), expected=want[mode][0].key())
        ctx.check(t["composite_mass"].equals(want[mode][1]), CO, "Composite._norm", f"{mode}: summand of the mass total",
                  detail=t["composite_mass"].key(), expected=want[mode][1].key())


def fractions(ctx, mode):
    """Terms of values['x'] and values['X'] in Composite._data for one mode: the resolved stores of one iteration of
    the component loop on the paths consistent with the mode."""
    from ..flowexpr import consistent, explore
    fn = ctx.fn(CO, "Composite._data")
    ex = explore(fn)
    loops = [v for v in ex.iterations.values() if isinstance(v[0], ast.For) and norm(v[0].iter) == "self.components.items()"]
    if len(loops) != 1:
        raise Unrecognised("component loop not found")
    lp, start, its = loops[0]
    if not (isinstance(lp.target, ast.Tuple) and len(lp.target.elts) == 2 and all(isinstance(e, ast.Name) for e in lp.target.elts)):
        raise Unrecognised("component loop target")
    mv = lp.target.elts[1].id + "@loop1"
    ma = _mode_atom(mode)

    def atom(e):
        r = ma(e)
        if r is not None:
            return r
        k = norm(e)
        if " not in " in k and k.endswith("@loop1 not in components") or k == "components":
            return False          # the component is selected
        if k.startswith("isinstance(") or k in ("unit", "quantity"):
            return True           # formatting of the row: any branch
        return None
    got = []
    for q in its:
        ok = True
        for e in q.events[start:]:
            if e.kind == "test":
                from ..flowexpr import truth
                v = truth(e.resolved, ma)
                if v is not None and v != e.extra:
                    ok = False
        if not ok:
            continue
        st = {}
        for e in q.events[start:]:
            if e.kind == "store" and str(e.extra).endswith(("['x']", "['X']")):
                st[str(e.extra)[-4:-2][-1]] = e.resolved
        if "x" in st and "X" in st:
            got.append((st["x"], st["X"]))
    if not got:
        raise Unrecognised(f"values['x'] / values['X'] not assigned in mode {mode}")
    env = {f"{mv}.proportion": Term.sym("p"), f"{mv}.component_mass": Term.sym("m"),
           "self.proportion_norm": Term.sym("PN"), "self.composite_mass": Term.sym("CM")}

    def inline(call, ev):
        if dotted_name(call.func) == "Quantity" and len(call.args) == 1:
            return ev.ev(call.args[0])
        return None
    res = []
    for x, X in got:
        ev = SymEval(dict(env), inline=inline)
        tx, tX = ev.ev(x), ev.ev(X)
        for t in (tx, tX):
            if t.atoms() - {"p", "m", "PN", "CM"}:
                raise Unrecognised(f"term {t.key()} has parts the abstraction does not interpret")
        res.append((tx, tX))
    if any(not (a.equals(res[0][0]) and b.equals(res[0][1])) for a, b in res[1:]):
        raise Unrecognised(f"paths of mode {mode} disagree on x / X")
    return res[0]


def r2_same_term(ctx):
    PN, CM = Term.sym("PN"), Term.sym("CM")
    p, m = Term.sym("p"), Term.sym("m")
    forms = {}
    for mode in MODES:
        try:
            t = totals(ctx, mode)
            x, X = fractions(ctx, mode)
        except (Unrecognised, NotSymbolic) as e:
            ctx.unrecognised(CO, "Composite._data", f"fractions in mode {mode}", str(e))
            continue
        ctx.check(x.equals(t["proportion_norm"] / PN), CO, "Composite._data",
                  f"{mode}: x = t/sum t with t the summand of the amount total", detail={"x": x.key(), "summand": t["proportion_norm"].key()})
        ctx.check(X.equals(t["composite_mass"] / CM), CO, "Composite._data",
                  f"{mode}: X = t/sum t with t the summand of the mass total", detail={"X": X.key(), "summand": t["composite_mass"].key()})
        forms[mode] = (t["proportion_norm"], t["composite_mass"])
    # physical meaning: in number modes the amount is p, in mass mode the amount is p/m; X numerator = amount * m
    for mode, (nx, nX) in forms.items():
        ctx.check(nX.equals(nx * m), CO, "Composite._data", f"{mode}: mass-fraction term = amount term * component mass",
                  detail={"amount": nx.key(), "mass": nX.key()})


def r3_percent(ctx):
    fn = ctx.fn(CO, "Composite.__init__")
    s = norm(fn)
    ctx.check("'x': Units.FRACTION" in s and "'X': Units.FRACTION" in s, CO, "Composite.__init__", "x and X are declared in the fraction unit")
    mod = ctx.repo.module(CO)
    r = ctx.repo.resolve(mod, "Units")
    frac = None
    if r and r[1] == "class":
        a = ctx.repo.class_attr(r[0], r[2], "FRACTION")
        frac = Evaluator(ctx.repo, a[0]).ev(a[1]) if a else None
    ctx.check(frac == "%", "src/scinumtools/materials/__init__.py", "Units", "the fraction unit is percent", detail=frac)
    _cell_table(ctx)


def _cell_table(ctx):
    """How one table cell is produced from (value, column unit, quantity flag): decision table over
    (quantity and unit, value is a Quantity, unit given) on resolved paths - of the loop body that appends to the row,
    or of the helper the row comprehension calls."""
    from ..flowexpr import consistent, explore, paths, reduce_ifexp
    fn = ctx.fn(CO, "Composite._data")
    name = "every column value is expressed in the column's declared unit"
    cases = []           # (paths, start, V, U, Q, result extractor)
    comp = [a for a in ast.walk(fn) if isinstance(a, ast.Assign) and len(a.targets) == 1 and norm(a.targets[0]) == "row" and isinstance(a.value, ast.ListComp)]
    if comp:
        lc = comp[0].value
        call = lc.elt
        c = ctx.repo.cls(CO, "Composite")
        if not (isinstance(call, ast.Call) and isinstance(call.func, ast.Attribute) and norm(call.func.value) in ("self", "Composite") and call.func.attr in methods(c)
                and len(lc.generators) == 1 and norm(lc.generators[0].iter) == "column_names" and len(call.args) == 3):
            ctx.unrecognised(CO, "Composite._data", name, f"row comprehension {norm(lc)[:100]}")
            return
        col = norm(lc.generators[0].target)
        if [norm(a) for a in call.args] != [f"values[{col}]", f"columns[{col}]", "quantity"]:
            ctx.unrecognised(CO, "Composite._data", name, f"cell helper arguments {[norm(a) for a in call.args]}")
            return
        h = methods(c)[call.func.attr]
        pa = [a.arg for a in h.args.args]
        if any(isinstance(d, ast.Name) and d.id == "staticmethod" for d in h.decorator_list):
            pa = [None] + pa
        if len(pa) != 4:
            ctx.unrecognised(CO, "Composite._data", name, "cell helper signature")
            return
        ctx.functions_analysed.add(f"{CO}::Composite.{h.name}")
        V, U, Qn = pa[1], pa[2], pa[3]
        ps = paths(h)
        get = lambda q: [e.resolved for e in q.events if e.kind == "return"]   # noqa: E731
        start = 0
    else:
        ex = explore(fn)
        loops = [v for v in ex.iterations.values() if isinstance(v[0], ast.For) and norm(v[0].iter) == "column_names"]
        if len(loops) != 1 or not isinstance(loops[0][0].target, ast.Name):
            ctx.unrecognised(CO, "Composite._data", name, "column loop not found")
            return
        lp, start, ps = loops[0]
        vs = sorted({norm(e.resolved.args[0]) for q in ps for e in q.events[start:] if e.kind == "test" and isinstance(e.resolved, ast.Call)
                     and dotted_name(e.resolved.func) == "isinstance" and norm(e.resolved.args[1]) == "Quantity"})
        us = sorted({norm(n) for q in ps for e in q.events[start:] if e.kind == "test" for n in ast.walk(e.resolved)
                     if isinstance(n, ast.Subscript) and norm(n.value) == "columns"})
        if len(vs) != 1 or len(us) != 1:
            ctx.unrecognised(CO, "Composite._data", name, f"cell value / unit expressions not identified: {vs} {us}")
            return
        V, U, Qn = vs[0], us[0], "quantity"
        ps = [q for q in ps if any(e.kind == "expr" for e in q.events[start:])]

        def get(q):
            return [e.resolved.args[0] for e in q.events[start:] if e.kind == "expr" and isinstance(e.resolved, ast.Call) and norm(e.resolved.func).endswith("row.append")
                    and len(e.resolved.args) == 1] + \
                   [e.resolved.args[0] for e in q.events[start:] if e.kind == "expr" and isinstance(e.resolved, ast.Call) and norm(e.resolved.func) == "[].append" and len(e.resolved.args) == 1]
    bad, rows, unk = [], [], []
    for qf in (True, False):
        for u in (True, False):
            for isq in (True, False):
                def atom(e, _q=qf, _u=u, _i=isq):
                    return {Qn: _q, U: _u, f"isinstance({V}, Quantity)": _i}.get(norm(e))
                cs, un = consistent(ps, atom, start)
                unk += un
                res = sorted({norm(reduce_ifexp(r, atom)) for q in cs for r in get(q)})
                if qf and u:
                    want = f"{V}.to({U})" if isq else f"Quantity({V}, {U})"
                elif isq:
                    want = f"{V}.value({U})" if u else f"{V}.value()"
                else:
                    want = V
                rows.append(f"quantity={qf} unit={u} isQuantity={isq}: {res}")
                if res != [want]:
                    bad.append((rows[-1], want))
    if unk and bad:
        ctx.unrecognised(CO, "Composite._data", name, f"tests not decided by the cell valuation: {sorted(set(unk))[:2]}")
    else:
        ctx.check(not bad, CO, "Composite._data", name, detail=[b[0] for b in bad] or f"{len(rows)} cells", expected=[b[1] for b in bad] or None)


def r4_mode_survives(ctx):
    for q in ("Material.__rmul__", "Material.__add__", "Material.atom"):
        fn = ctx.fn(MA, q)
        calls = [c for c in ast.walk(fn) if isinstance(c, ast.Call) and dotted_name(c.func) == "Material"]
        if not calls:
            ctx.unrecognised(MA, q, "result construction", "no Material(...) construction")
            continue
        for c in calls:
            kw = {k.arg: norm(k.value) for k in c.keywords}
            ctx.check(kw.get("norm_type") == "self.norm_type" and kw.get("natural") == "self.natural", MA, q,
                      "the new material keeps the normalisation mode and the isotope mode", detail=kw,
                      expected={"natural": "self.natural", "norm_type": "self.norm_type"})
    C10.r3_accumulation(ctx)
    # _norm is reached from the constructor and from add(); it ends in the matter normalisation
    fn = ctx.fn(CO, "Composite._norm")
    ctx.form(norm(K.body_nodoc(fn)[-1]) == "Matter._norm(self)", CO, "Composite._norm", "densities are re-derived after the totals")


RULES = [
    ("C11.R1", "totals per mode: amount total sums p (number modes) or p/m (mass mode); mass total sums p*m resp. p", r1_totals),
    ("C11.R2", "in every mode the numerator of x (X) is the summand of the total it is divided by; the mass term is the amount term times the component mass", r2_same_term),
    ("C11.R3", "x and X are declared in percent and converted through the column's unit", r3_percent),
    ("C11.R4", "normalisation/isotope mode survives scaling, adding and formula atoms; totals recomputed whenever a count changes", r4_mode_survives),
]
