"""C11 — number and mass fractions. Decided: x_i and X_i have the form t_i / sum_j t_j with the
*same* term t: (R1) the totals per normalisation mode are sum p and sum p*m (number modes),
sum p/m and sum p (mass mode); (R2) in every mode the numerator of x (resp. X) equals the summand
of the total it is divided by — hence sum x = sum X = 1, proportionality to n_i and n_i m_i,
invariance under common scaling and the number/mass duality follow algebraically for all inputs;
(R3) both columns are declared in percent and pass through a unit conversion; (R4) the
normalisation mode and isotope mode survive arithmetic (scaling, adding, atoms of a formula) and
the totals are recomputed whenever a count changes. NOT decided: floating-point summation error,
the avg row."""
import ast

from ..literal import Evaluator
from ..model import AnalysisError, dotted_name, methods, norm, walk_no_nested
from ..predtable import Unrecognised
from ..symexec import NONE, execute
from ..symexpr import NotSymbolic, SymEval, Term
from . import C10
from . import common as K

LEVEL_TEXT = ("static analysis (ast): symbolic extraction of the per-mode totals and of the per-component fraction terms; "
              "the identity numerator = summand makes normalisation, proportionality and scale invariance algebraic facts "
              "for all mixtures, which sampled mixtures cannot establish")
LEVEL_NOTE = "trusted: np.sum over a list comprehension sums its elements; Quantity arithmetic of C06"
TECHNIQUE = "symbolic term extraction and identity checking over ast (static analysis)"

CO = C10.CO
MA = C10.MA
MODES = ("NUMBER", "NUMBER_FRACTION", "MASS_FRACTION")


def _mode_decider(mode):
    def decide(node, h):
        s = norm(node)
        if s == "self.norm_type == Norm.MASS_FRACTION":
            return mode == "MASS_FRACTION"
        if s == "self.norm_type == Norm.NUMBER":
            return mode == "NUMBER"
        if s == "self.norm_type == Norm.NUMBER_FRACTION":
            return mode == "NUMBER_FRACTION"
        if s.startswith("self.norm_type in ["):
            names = [x.strip().replace("Norm.", "") for x in s[len("self.norm_type in ["):-1].split(",")]
            return mode in names
        if s == "type(self) in Component.__subclasses__()":
            return False
        return None
    return decide


def totals(ctx, mode):
    """(summand of proportion_norm, summand of composite_mass) as Terms over p, m."""
    fn = ctx.fn(CO, "Composite._norm")
    out = {}

    def inline(call, ev):
        f = dotted_name(call.func)
        if f in ("np.sum", "sum") and len(call.args) == 1 and isinstance(call.args[0], (ast.ListComp, ast.GeneratorExp)):
            comp = call.args[0]
            if len(comp.generators) == 1 and isinstance(comp.generators[0].target, ast.Name) and norm(comp.generators[0].iter) in ("components", "self.components.values()"):
                v = comp.generators[0].target.id
                sub = SymEval({f"{v}.proportion": Term.sym("p"), f"{v}.component_mass": Term.sym("m")})
                t = sub.ev(comp.elt)
                store.append(t)
                return Term.sym(f"SUM#{len(store) - 1}")
        return None
    store = []
    h, sig = execute(fn, _mode_decider(mode), {}, inline=inline)
    for name in ("proportion_norm", "composite_mass"):
        v = h.env.get(f"self.{name}")
        if v is None or v is NONE:
            raise Unrecognised(f"self.{name} not assigned in mode {mode}")
        hit = [i for i in range(len(store)) if v.equals(Term.sym(f"SUM#{i}"))]
        if not hit:
            raise Unrecognised(f"self.{name} is not a plain sum: {v.key()}")
        out[name] = store[hit[0]]
    return out


def r1_totals(ctx):
    p, m = Term.sym("p"), Term.sym("m")
    want = {"NUMBER": (p, p * m), "NUMBER_FRACTION": (p, p * m), "MASS_FRACTION": (p / m, p)}
    for mode in MODES:
        try:
            t = totals(ctx, mode)
        except (Unrecognised, NotSymbolic) as e:
            ctx.unrecognised(CO, "Composite._norm", f"totals in mode {mode}", str(e))
            continue
        ctx.check(t["proportion_norm"].equals(want[mode][0]), CO, "Composite._norm", f"{mode}: summand of the amount total",
                  detail=t["proportion_norm"].key(), expected=want[mode][0].key())
        ctx.check(t["composite_mass"].equals(want[mode][1]), CO, "Composite._norm", f"{mode}: summand of the mass total",
                  detail=t["composite_mass"].key(), expected=want[mode][1].key())


def fractions(ctx, mode):
    """Terms of values['x'] and values['X'] in Composite._data for one mode."""
    fn = ctx.fn(CO, "Composite._data")
    loops = [n for n in fn.body if isinstance(n, ast.For) and norm(n.iter) == "self.components.items()"]
    if len(loops) != 1:
        raise Unrecognised("component loop not found")
    lp = loops[0]
    mv = lp.target.elts[1].id if isinstance(lp.target, ast.Tuple) else "m"
    blocks = [s for s in lp.body if isinstance(s, ast.If) and "self.norm_type" in norm(s.test)]
    if not blocks:
        raise Unrecognised("mode decision not found in the component loop")
    env = {f"{mv}.proportion": Term.sym("p"), f"{mv}.component_mass": Term.sym("m"),
           "self.proportion_norm": Term.sym("PN"), "self.composite_mass": Term.sym("CM")}

    def inline(call, ev):
        if dotted_name(call.func) == "Quantity" and len(call.args) == 1:
            return ev.ev(call.args[0])
        return None
    h, sig = execute(fn, _mode_decider(mode), env, inline=inline, body=[blocks[0]])
    x, X = h.env.get("values['x']"), h.env.get("values['X']")
    if x is None or X is None or x is NONE or X is NONE:
        raise Unrecognised(f"values['x'] / values['X'] not assigned in mode {mode}")
    return x, X


def r2_same_term(ctx):
    PN, CM = Term.sym("PN"), Term.sym("CM")
    p, m = Term.sym("p"), Term.sym("m")
    forms = {}
    for mode in MODES:
        try:
            t = totals(ctx, mode)
            x, X = fractions(ctx, mode)
        except (Unrecognised, NotSymbolic) as e:
            ctx.unrecognised(CO, "Composite._data", f"fractions in mode {mode}", str(e))
            continue
        ctx.check(x.equals(t["proportion_norm"] / PN), CO, "Composite._data",
                  f"{mode}: x = t/sum t with t the summand of the amount total", detail={"x": x.key(), "summand": t["proportion_norm"].key()})
        ctx.check(X.equals(t["composite_mass"] / CM), CO, "Composite._data",
                  f"{mode}: X = t/sum t with t the summand of the mass total", detail={"X": X.key(), "summand": t["composite_mass"].key()})
        forms[mode] = (t["proportion_norm"], t["composite_mass"])
    # physical meaning: in number modes the amount is p, in mass mode the amount is p/m; X numerator = amount * m
    for mode, (nx, nX) in forms.items():
        ctx.check(nX.equals(nx * m), CO, "Composite._data", f"{mode}: mass-fraction term = amount term * component mass",
                  detail={"amount": nx.key(), "mass": nX.key()})


def r3_percent(ctx):
    fn = ctx.fn(CO, "Composite.__init__")
    s = norm(fn)
    ctx.check("'x': Units.FRACTION" in s and "'X': Units.FRACTION" in s, CO, "Composite.__init__", "x and X are declared in the fraction unit")
    mod = ctx.repo.module(CO)
    r = ctx.repo.resolve(mod, "Units")
    frac = None
    if r and r[1] == "class":
        a = ctx.repo.class_attr(r[0], r[2], "FRACTION")
        frac = Evaluator(ctx.repo, a[0]).ev(a[1]) if a else None
    ctx.check(frac == "%", "src/scinumtools/materials/__init__.py", "Units", "the fraction unit is percent", detail=frac)
    fn = ctx.fn(CO, "Composite._data")
    s = norm(fn).replace("\n", " ")
    ctx.form("row.append(value.to(unit))" in s and "row.append(Quantity(value, unit))" in s and "value.value(unit) if unit else value.value()" in s,
             CO, "Composite._data", "every column value is expressed in the column's declared unit")


def r4_mode_survives(ctx):
    for q in ("Material.__rmul__", "Material.__add__", "Material.atom"):
        fn = ctx.fn(MA, q)
        calls = [c for c in ast.walk(fn) if isinstance(c, ast.Call) and dotted_name(c.func) == "Material"]
        if not calls:
            ctx.unrecognised(MA, q, "result construction", "no Material(...) construction")
            continue
        for c in calls:
            kw = {k.arg: norm(k.value) for k in c.keywords}
            ctx.check(kw.get("norm_type") == "self.norm_type" and kw.get("natural") == "self.natural", MA, q,
                      "the new material keeps the normalisation mode and the isotope mode", detail=kw,
                      expected={"natural": "self.natural", "norm_type": "self.norm_type"})
    C10.r3_accumulation(ctx)
    # _norm is reached from the constructor and from add(); it ends in the matter normalisation
    fn = ctx.fn(CO, "Composite._norm")
    ctx.form(norm(K.body_nodoc(fn)[-1]) == "Matter._norm(self)", CO, "Composite._norm", "densities are re-derived after the totals")


RULES = [
    ("C11.R1", "totals per mode: amount total sums p (number modes) or p/m (mass mode); mass total sums p*m resp. p", r1_totals),
    ("C11.R2", "in every mode the numerator of x (X) is the summand of the total it is divided by; the mass term is the amount term times the component mass", r2_same_term),
    ("C11.R3", "x and X are declared in percent and converted through the column's unit", r3_percent),
    ("C11.R4", "normalisation/isotope mode survives scaling, adding and formula atoms; totals recomputed whenever a count changes", r4_mode_survives),
]
