"""C03 — a unit expression means the product of its table entries. Decided: (R1) residual-text
discipline of the unit atom parser: numbers only through an anchored regex, the exponent is an
anchored suffix, the unit symbol is the longest table suffix, what remains must be *exactly* a
prefix (whole-string membership) or empty, nothing is discarded; (R2) prefix admissibility table;
(R3) exponent bookkeeping of Atom and BaseUnits under * and / (present/absent key, sibling
agreement); (R4) per-unit factor (prefix*unit)**exp and dimensions*exp for the three id forms;
(R5) accumulation of factors, dimensions and text; (R6) rational arithmetic of Fraction as
identities on (num, den) for every operand kind, including that no possibly non-integral value
reaches the truncating constructor; (R7) the alphabet the renderer emits is the one the reader
accepts; (R8) table well-formedness and absence of longest-suffix / prefix ambiguity, exhaustively
over all rows x prefixes; (R9) dimension-vector algebra component-wise, equality over every
component. NOT decided: numeric values of tabulated factors; round trip of values."""
import ast
import re as _re

from ..literal import ClassRef, Evaluator
from ..model import AnalysisError, dotted_name, methods, norm, walk_no_nested
from ..predtable import Unrecognised
from ..solvercfg import all_configs
from ..symexec import NONE, SymHandler, execute
from ..symexpr import NotSymbolic, SymEval, Term, func
from ..unittables import SETTINGS, module_const, unit_prefixes, unit_standard
from . import common as K

from . import C02 as _C02

LEVEL_TEXT = ("static analysis (ast): residual-text discipline of the unit atom parser, decision tables, symbolic "
              "identities of the exponent/fraction/dimension algebra for every operand kind, and exhaustive "
              "well-formedness/ambiguity checks over the literal unit tables (153 rows x 20 prefixes)")
LEVEL_NOTE = ("trusted: tabulated numeric factors (recomputed from definitions by the existing suite); Python's re "
              "semantics for anchors and character classes; str.endswith/in on exact strings")
TECHNIQUE = "ast cursor/residual-text rules, symbolic (num,den) identities, exhaustive literal-table checks (static analysis)"

US = "src/scinumtools/units/unit_solver.py"
BU = "src/scinumtools/units/base_units.py"
FR = "src/scinumtools/units/fraction.py"
DM = "src/scinumtools/units/dimensions.py"
UL = "src/scinumtools/units/unit_list.py"


# ---------------------------------------------------------------- R1 / R2
def r1_atom_parser(ctx):
    fn = ctx.fn(US, "AtomParser")
    p = fn.args.args[0].arg
    body = fn.body
    # (a) number literal only through an anchored regular expression
    first = body[0]
    ok = isinstance(first, ast.If) and isinstance(first.test, ast.NamedExpr) and isinstance(first.test.value, ast.Call) \
        and dotted_name(first.test.value.func) == "re.match"
    pat = None
    if ok:
        try:
            pat = Evaluator(ctx.repo, ctx.repo.module(US)).ev(first.test.value.args[0])
        except AnalysisError:
            pat = None
    if not ok or not isinstance(pat, str):
        floats = [n for n in ast.walk(fn) if isinstance(n, ast.Call) and dotted_name(n.func) == "float"]
        guarded = False
        ctx.check(guarded if floats else True, US, "AtomParser", "numeric factor is accepted only through an anchored regular expression",
                  detail="float(<text>) without a dominating anchored re.match" if floats else None,
                  expected="float() alone also accepts '1_0', 'nan', 'inf', 'infinity'")
    else:
        anch = pat.startswith("^") and pat.endswith("$")
        alphabet = set(_re.sub(r"\\.", "", pat)) - set("^$()[]|?+*{}\\")
        ctx.check(anch and alphabet <= set("0123456789.e+-"), US, "AtomParser", "number literal pattern is anchored and numeric",
                  detail=pat, expected="^...$ over digits . e + -")
        fl = [norm(s) for s in first.body]
        ctx.form(any("float(" in s for s in fl) and any(s.startswith("return Atom(") and s.endswith(", {})") for s in fl), US,
                  "AtomParser", "a number becomes a factor without units", detail=fl)
    # (b) track the residual text variable
    assigns = [n for n in walk_no_nested(fn) if isinstance(n, ast.Assign) and len(n.targets) == 1
               and isinstance(n.targets[0], ast.Name) and n.targets[0].id == p]
    forms = []
    for a in assigns:
        v = a.value
        s = norm(v)
        if isinstance(v, ast.BinOp) and isinstance(v.op, ast.Add) and isinstance(v.left, ast.Constant) and norm(v.right) == p:
            forms.append(("pad", v.left.value, a))
        elif isinstance(v, ast.Subscript) and norm(v.value) == p and isinstance(v.slice, ast.Slice):
            lo = norm(v.slice.lower) if v.slice.lower is not None else None
            hi = norm(v.slice.upper) if v.slice.upper is not None else None
            forms.append(("slice", (lo, hi), a))
        elif isinstance(v, ast.Subscript) and norm(v.value) == p:
            forms.append(("index", norm(v.slice), a))
        else:
            forms.append(("other", s, a))
    kinds = [f[0] for f in forms]
    idx = [f for f in forms if f[0] == "index"]
    ctx.check(not idx, US, "AtomParser", "the text in front of the unit symbol is never cut down to a single character",
              detail=[norm(f[2]) for f in idx] or None,
              expected="slice that keeps the whole remainder (e.g. string[1:-len(base)])")
    oth = [f for f in forms if f[0] == "other"]
    if oth:
        ctx.unrecognised(US, "AtomParser", "residual text update", f"unrecognised rewrite {[norm(f[2]) for f in oth]}")
        return
    pads = [f for f in forms if f[0] == "pad"]
    ctx.check(len(pads) == 1 and pads[0][1] == " ", US, "AtomParser", "input is padded with exactly one leading blank",
              detail=[norm(f[2]) for f in pads])
    slices = [f for f in forms if f[0] == "slice"]
    # exponent strip: string[:-len(exp)] where exp = m.group() of a regex anchored with $
    exp_ok = base_ok = False
    exp_pat = None
    for n in ast.walk(fn):
        if isinstance(n, ast.Call) and dotted_name(n.func) == "re.search" and len(n.args) == 2 and norm(n.args[1]) == p:
            try:
                exp_pat = Evaluator(ctx.repo, ctx.repo.module(US)).ev(n.args[0])
            except AnalysisError:
                exp_pat = None
    for kind, (lo, hi), a in slices:
        if lo is None and hi is not None and hi.startswith("-len("):
            exp_ok = True
        if lo == "1" and hi is not None and hi.startswith("-len("):
            base_ok = hi == "-len(base)"
    ctx.check(exp_ok and isinstance(exp_pat, str) and exp_pat.endswith("$"), US, "AtomParser",
              "exponent is an anchored suffix and exactly its length is removed", detail={"pattern": exp_pat, "slices": [s[1] for s in slices]})
    ctx.check(base_ok, US, "AtomParser", "unit symbol: the pad and exactly the matched suffix are removed, the rest is kept",
              detail=[s[1] for s in slices], expected=("1", "-len(base)"))
    # longest table suffix
    src = norm(fn)
    ctx.form(f"[u for u in UNIT_STANDARD.keys() if {p}.endswith(u)]" in src and "base = max(bases, key=len)" in src, US,
              "AtomParser", "unit symbol is the longest table symbol that is a suffix",
              expected="max(..., key=len) over UNIT_STANDARD symbols with endswith")
    # unknown symbol rejected
    unk = [n for n in walk_no_nested(fn) if isinstance(n, ast.If) and norm(n.test) == "bases"]
    ctx.check(len(unk) == 1 and any(isinstance(x, ast.Raise) for x in unk[0].orelse), US, "AtomParser",
              "no table symbol is a suffix => error")
    # (c) prefix decision: whole-string membership, non-member non-empty text is an error
    pre = [n for n in walk_no_nested(fn) if isinstance(n, ast.If) and norm(n.test) in
           (f"{p} in UNIT_PREFIXES.keys()", f"{p} in UNIT_PREFIXES")]
    if len(pre) != 1:
        ends = [n for n in ast.walk(fn) if isinstance(n, (ast.ListComp, ast.GeneratorExp, ast.For)) and "UNIT_PREFIXES" in norm(n)
                and f"{p}.endswith(" in norm(n)]
        if ends or any("UNIT_PREFIXES" in norm(n.test) and "endswith" in norm(n) for n in walk_no_nested(fn) if isinstance(n, ast.If)):
            ctx.violated(US, "AtomParser", "prefix is recognised by whole-string membership",
                         detail="prefix matched with endswith: text in front of the prefix is dropped unmatched",
                         expected=f"{p} in UNIT_PREFIXES")
        else:
            ctx.unrecognised(US, "AtomParser", "prefix decision", "no `<text> in UNIT_PREFIXES` test found")
        return
    pi = pre[0]
    ctx.holds(US, "AtomParser", "prefix is recognised by whole-string membership", detail=norm(pi.test))
    tail = pi.orelse
    ok = len(tail) == 1 and isinstance(tail[0], ast.If) and norm(tail[0].test) in (f"len({p}) > 0", f"{p}", f"len({p}) >= 1", f"{p} != ''") \
        and any(isinstance(x, ast.Raise) for x in tail[0].body)
    ctx.check(ok, US, "AtomParser", "non-empty text that is not a prefix is an error",
              detail=norm(tail[0].test) if tail and isinstance(tail[0], ast.If) else None, expected=f"elif len({p}) > 0: raise")
    # R2: admissibility table inside the prefix branch
    chain = [s for s in pi.body if isinstance(s, ast.If)]
    if not chain:
        ctx.unrecognised(US, "AtomParser", "prefix admissibility", "no decision chain in the prefix branch", rule="C03.R2")
        return

    class H(K_handler):
        pass
    for pref_kind in ("list", "True", "False"):
        for member in (True, False):
            if pref_kind != "list" and not member:
                continue
            h = PrefixHandler(pref_kind, member)
            from ..predtable import run_block
            try:
                sig = run_block([chain[0]], h)
            except Unrecognised as e:
                ctx.unrecognised(US, "AtomParser", f"admissibility cell prefixes={pref_kind} listed={member}", str(e), rule="C03.R2")
                continue
            want_raise = (pref_kind == "list" and not member) or pref_kind == "False"
            ctx.check((sig == "raise") == want_raise, US, "AtomParser",
                      f"admissibility cell prefixes={pref_kind} listed={member}", detail=sig,
                      expected="raise" if want_raise else "accept", rule="C03.R2")
    uid = [norm(s) for s in pi.body if isinstance(s, ast.Assign)]
    ctx.form(any(s == "unitid = f'{prefix:s}{SYMBOL_UNITID}{unitid}'" for s in uid) or any("SYMBOL_UNITID" in s and "prefix" in s for s in uid),
              US, "AtomParser", "accepted prefix and unit form the id prefix:unit", detail=uid, rule="C03.R2")


from ..predtable import Handler as K_handler  # noqa: E402


class PrefixHandler(K_handler):
    def __init__(self, pref_kind, member):
        super().__init__()
        self.k, self.m = pref_kind, member

    def test(self, node):
        s = norm(node)
        if s == "isinstance(UNIT_STANDARD[base].prefixes, list)":
            return self.k == "list"
        if s == "prefix not in UNIT_STANDARD[base].prefixes":
            return not self.m
        if s == "prefix in UNIT_STANDARD[base].prefixes":
            return self.m
        if s == "UNIT_STANDARD[base].prefixes is True":
            return self.k == "True"
        if s == "UNIT_STANDARD[base].prefixes is False":
            return self.k == "False"
        if s in ("prefix not in UNIT_PREFIXES.keys()", "prefix not in UNIT_PREFIXES"):
            return False     # dominated by the membership test
        if s in ("prefix in UNIT_PREFIXES.keys()", "prefix in UNIT_PREFIXES"):
            return True
        if s == "not UNIT_STANDARD[base].prefixes":
            return self.k == "False"
        return None


# ---------------------------------------------------------------- R3
OPSYM = {ast.Add: "+", ast.Sub: "-", ast.Mult: "*", ast.Div: "/"}


def _exponent_update(fn):
    """Abstraction of `for unit,exp in X.items(): d[unit] = d[unit] op exp if unit in d else sexp`:
    dict(iter, present_op, absent_sign) or dict(iter, scale_op, scale_arg); None if the idiom is absent."""
    for lp in [n for n in fn.body if isinstance(n, ast.For)]:
        if len(lp.body) != 1:
            continue
        st = lp.body[0]
        if isinstance(st, ast.Assign) and isinstance(st.value, ast.IfExp) and isinstance(st.targets[0], ast.Subscript):
            ie = st.value
            tgt = norm(st.targets[0])
            out = {"iter": norm(lp.iter), "target": tgt, "test": norm(ie.test)}
            if isinstance(ie.body, ast.BinOp) and norm(ie.body.left) == tgt and type(ie.body.op) in OPSYM:
                out["present_op"] = OPSYM[type(ie.body.op)]
                out["present_arg"] = norm(ie.body.right)
            if isinstance(ie.orelse, ast.Name):
                out["absent_sign"], out["absent_arg"] = "+", ie.orelse.id
            elif isinstance(ie.orelse, ast.UnaryOp) and isinstance(ie.orelse.op, ast.USub) and isinstance(ie.orelse.operand, ast.Name):
                out["absent_sign"], out["absent_arg"] = "-", ie.orelse.operand.id
            return out
        if isinstance(st, ast.AugAssign) and isinstance(st.target, ast.Subscript) and type(st.op) in OPSYM:
            return {"iter": norm(lp.iter), "target": norm(st.target), "scale_op": OPSYM[type(st.op)], "scale_arg": norm(st.value)}
    return None


def r3_exponent_algebra(ctx):
    want = {
        (US, "Atom.__mul__"): "+", (US, "Atom.__truediv__"): "-",
        (BU, "BaseUnits.__add__"): "+", (BU, "BaseUnits.__sub__"): "-",
    }
    for (rel, q), op in want.items():
        fn = ctx.fn(rel, q)
        u = _exponent_update(fn)
        if u is None or "present_op" not in u or "absent_sign" not in u or u.get("iter") != "other.baseunits.items()" \
                or u.get("test") != "unit in baseunits" or u.get("target") != "baseunits[unit]":
            ctx.unrecognised(rel, q, "exponent update", f"present/absent idiom not recognised: {u}")
            continue
        ok = u["present_op"] == op and u["absent_sign"] == op and u["present_arg"] == "exp" and u["absent_arg"] == "exp"
        ctx.check(ok, rel, q, "exponents: present key => old op exp, absent key => op exp", detail=u,
                  expected={"present": f"baseunits[unit] {op} exp", "absent": f"{op}exp"})
        pre = [norm(s) for s in fn.body]
        ctx.form("baseunits = dict(self.baseunits)" in pre, rel, q, "works on a copy of the left operand's exponents")
    for q, op in (("Atom.__mul__", "*"), ("Atom.__truediv__", "/")):
        fn = ctx.fn(US, q)
        mg = [s for s in fn.body if isinstance(s, ast.Assign) and norm(s.targets[0]) == "magnitude" and isinstance(s.value, ast.BinOp)]
        if len(mg) != 1 or norm(mg[0].value.left) != "self.magnitude" or norm(mg[0].value.right) != "other.magnitude" \
                or norm(fn.body[-1]) != "return Atom(magnitude, baseunits)":
            ctx.unrecognised(US, q, "numeric factor", "magnitude = self.magnitude <op> other.magnitude not found")
            continue
        got = OPSYM.get(type(mg[0].value.op))
        ctx.check(got == op, US, q, "numeric factors combine with the same operator as the exponents", detail=got, expected=op)
    for q, op, arg in (("BaseUnits.__mul__", "*", "other"), ("BaseUnits.__truediv__", "/", "div")):
        fn = ctx.fn(BU, q)
        u = _exponent_update(fn)
        if u is None or "scale_op" not in u or u["iter"] != "self.baseunits.items()" or u["target"] != "baseunits[unit]":
            ctx.unrecognised(BU, q, "exponent scaling", f"idiom not recognised: {u}")
            continue
        a0 = fn.args.args[1].arg
        ctx.check(u["scale_op"] == op and u["scale_arg"] == a0, BU, q, "every exponent is scaled by the factor", detail=u,
                  expected=f"baseunits[unit] {op}= {a0}")


# ---------------------------------------------------------------- R4 / R5
def _sym(src, env=None):
    return SymEval(env or {}).ev(ast.parse(src, mode="eval").body)


def r4_unit_base(ctx):
    fn = ctx.fn(BU, "get_unit_base")
    chain = [s for s in fn.body if isinstance(s, ast.If) and "startswith(SYMBOL_SYSTEM_UNIT)" in norm(s.test)]
    if len(chain) != 1:
        ctx.unrecognised(BU, "get_unit_base", "id forms", "three-way decision on the unit id not found")
        return
    node = chain[0]
    branches = {"system": node.body}
    nxt = node.orelse
    if len(nxt) == 1 and isinstance(nxt[0], ast.If) and norm(nxt[0].test) == "SYMBOL_UNITID in unitid":
        branches["prefixed"] = nxt[0].body
        branches["plain"] = nxt[0].orelse
    else:
        ctx.unrecognised(BU, "get_unit_base", "id forms", "prefixed/plain decision not found")
        return
    E = "exp.value(dtype=float)"
    want = {
        "system": ("QUANTITY_UNITS[unitid][0] ** EXP", "Dimensions.from_list(QUANTITY_UNITS[unitid][1]) * exp"),
        "prefixed": ("(UNIT_PREFIXES[prefix].magnitude * UNIT_STANDARD[base].magnitude) ** EXP",
                     "Dimensions.from_list(UNIT_STANDARD[base].dimensions) * exp"),
        "plain": ("UNIT_STANDARD[base].magnitude ** EXP", "Dimensions.from_list(UNIT_STANDARD[base].dimensions) * exp"),
    }
    for name, stmts in branches.items():
        env = {}
        got = {}
        for st in stmts:
            if isinstance(st, ast.Assign) and len(st.targets) == 1 and isinstance(st.targets[0], ast.Name):
                t = st.targets[0].id
                if t == "qu":
                    env["qu[0]"] = _sym("QUANTITY_UNITS[unitid][0]") if norm(st.value) == "QUANTITY_UNITS[unitid]" else Term.sym("?qu0")
                    env["qu[1]"] = Term.sym("QUANTITY_UNITS[unitid][1]") if norm(st.value) == "QUANTITY_UNITS[unitid]" else Term.sym("?qu1")
                elif t in ("magnitude", "dimensions"):
                    try:
                        got[t] = SymEval(dict(env, **{"EXP": Term.sym("EXP")})).ev(_replace_exp(st.value, E))
                    except NotSymbolic as e:
                        got[t] = None
        for t, wsrc in zip(("magnitude", "dimensions"), want[name]):
            wenv = {"qu[0]": Term.sym("QUANTITY_UNITS[unitid][0]"), "qu[1]": Term.sym("QUANTITY_UNITS[unitid][1]")}
            w = SymEval(wenv).ev(ast.parse(wsrc.replace("QUANTITY_UNITS[unitid][0]", "qu[0]").replace("QUANTITY_UNITS[unitid][1]", "qu[1]"), mode="eval").body)
            g = got.get(t)
            if g is None:
                ctx.unrecognised(BU, "get_unit_base", f"{name}: {t}", "term not found / not symbolic")
            else:
                ctx.check(g.equals(w), BU, "get_unit_base", f"{name} id: {t}", detail=g.key(), expected=w.key())
    # id split
    ctx.form("prefix, base = unitid.split(SYMBOL_UNITID)" in [norm(s) for s in branches["prefixed"]], BU, "get_unit_base",
              "prefixed id is split into (prefix, unit) in that order")
    # expression text
    s = norm(fn)
    ctx.form("expression = f'{prefix}{base}{exp}'" in s and "expression = f'{prefix}{base}'" in s and "exp.num == 1 and exp.den == 1" in s,
              BU, "get_unit_base", "rendered text is prefix+unit, followed by the exponent unless it is 1")


def _replace_exp(node, Esrc):
    import copy

    class T(ast.NodeTransformer):
        def visit_Call(self, n):
            if norm(n) == Esrc:
                return ast.Name(id="EXP", ctx=ast.Load())
            return self.generic_visit(n)
    return T().visit(copy.deepcopy(node))


def r5_accumulation(ctx):
    fn = ctx.fn(BU, "BaseUnits.__init__")
    loops = [s for s in fn.body if isinstance(s, ast.For)]
    if len(loops) != 1:
        ctx.unrecognised(BU, "BaseUnits.__init__", "accumulation loop", f"{len(loops)} top-level loops")
        return
    lp = loops[0]
    pre = [norm(s) for s in fn.body[: fn.body.index(lp)]]
    for init in ("self.magnitude = 1", "self.dimensions = Dimensions()", "self.units = []", "self.expression = []"):
        ctx.form(init in pre, BU, "BaseUnits.__init__", f"accumulator starts neutral: {init}")
    body = [norm(s) for s in lp.body]
    acc = ["self.magnitude *= ubase.magnitude", "self.dimensions += ubase.dimensions", "self.units.append(ubase.units)",
           "self.expression.append(ubase.expression)"]
    for tgt, op, val in (("self.magnitude", ast.Mult, "ubase.magnitude"), ("self.dimensions", ast.Add, "ubase.dimensions")):
        au = [x for x in lp.body if isinstance(x, ast.AugAssign) and norm(x.target) == tgt]
        if len(au) != 1:
            ctx.unrecognised(BU, "BaseUnits.__init__", f"accumulation of {tgt}", "no single augmented assignment in the loop")
        else:
            ctx.check(isinstance(au[0].op, op) and norm(au[0].value) == val, BU, "BaseUnits.__init__", f"accumulates {tgt}",
                      detail=norm(au[0]), expected=f"{tgt} {OPSYM[op]}= {val}")
    for a in acc[2:]:
        ctx.form(a in body, BU, "BaseUnits.__init__", f"collects: {a}")
    ctx.form("ubase = get_unit_base(unitid, self.baseunits[unitid])" in body, BU, "BaseUnits.__init__",
              "each unit contributes get_unit_base(id, its exponent)")
    # zero exponents are dropped before they contribute
    z = [s for s in lp.body if isinstance(s, ast.If) and norm(s.test) in ("self.baseunits[unitid].num == 0",)]
    ok = len(z) == 1 and [norm(x) for x in z[0].body] == ["del self.baseunits[unitid]", "continue"] and \
        lp.body.index(z[0]) < min(i for i, s in enumerate(lp.body) if norm(s) in acc)
    ctx.form(ok, BU, "BaseUnits.__init__", "zero exponents are removed and contribute nothing")
    post = [norm(s) for s in fn.body[fn.body.index(lp) + 1:]]
    ctx.form(any("SYMBOL_MULTIPLY.join(self.expression)" in s for s in post), BU, "BaseUnits.__init__",
              "unit texts are joined with the multiplication symbol")
    ctx.form(norm(lp.iter) == "list(self.baseunits.keys())", BU, "BaseUnits.__init__", "iterates over a snapshot of the keys (entries are deleted inside)")


# ---------------------------------------------------------------- R6
class FracHandler(SymHandler):
    """Tracks Fraction objects as (num, den) pairs bound to names."""

    def __init__(self, kind, env):
        def decide(node, h):
            s = norm(node)
            if s == "isinstance(other, Fraction)":
                return self.kind == "Fraction"
            if s == "isinstance(other, tuple)":
                return self.kind == "tuple"
            if s == "isinstance(other, int)":
                return self.kind == "int"
            if s == "float(other).is_integer()":
                return self.kind in ("int", "intfloat")
            if s == "isinstance(other, (int, float))":
                return self.kind in ("int", "intfloat", "float")
            return None
        super().__init__(decide, env)
        self.kind = kind
        self.result = None

    def _ctor(self, call):
        f = dotted_name(call.func)
        if f == "Fraction" and 1 <= len(call.args) <= 2:
            n = self.value(call.args[0])
            d = self.value(call.args[1]) if len(call.args) == 2 else Term.const(1)
            return n, d
        if f == "Fraction.from_tuple" and len(call.args) == 1:
            a = norm(call.args[0])
            return self.value(ast.parse(f"{a}[0]", mode="eval").body), self.value(ast.parse(f"{a}[1]", mode="eval").body)
        if f == "Fraction.from_fraction" and len(call.args) == 1:
            a = norm(call.args[0])
            return self.value(ast.parse(f"{a}.num", mode="eval").body), self.value(ast.parse(f"{a}.den", mode="eval").body)
        return None

    def stmt(self, node):
        if isinstance(node, ast.Assign) and len(node.targets) == 1 and isinstance(node.targets[0], ast.Name) \
                and isinstance(node.value, ast.Call):
            c = self._ctor(node.value)
            if c is not None:
                t = node.targets[0].id
                self.env[f"{t}.num"], self.env[f"{t}.den"] = c
                return
        if isinstance(node, ast.Return) and isinstance(node.value, ast.Call):
            c = self._ctor(node.value)
            if c is not None:
                self.returned = True
                self.result = c
                return
        super().stmt(node)


def _frac_cell(ctx, mname, kind):
    fn = ctx.fn(FR, f"Fraction.{mname}")
    env = {"self.num": Term.sym("sn"), "self.den": Term.sym("sd")}
    if kind == "Fraction":
        env.update({"other.num": Term.sym("on"), "other.den": Term.sym("od")})
    elif kind == "tuple":
        env.update({"other[0]": Term.sym("o0"), "other[1]": Term.sym("o1")})
    else:
        env["other"] = Term.sym("k")
    h = FracHandler(kind, env)
    from ..predtable import run_block
    run_block(fn.body, h)
    return h


def r6_fraction(ctx):
    sn, sd, on, od, o0, o1, k = (Term.sym(x) for x in ("sn", "sd", "on", "od", "o0", "o1", "k"))
    r0, r1 = Term.sym("<Fraction._ratio(other)>[0]"), Term.sym("<Fraction._ratio(other)>[1]")
    one = Term.const(1)
    exp = {
        "__add__": {"Fraction": (sn * od + on * sd, sd * od), "tuple": (sn * o1 + o0 * sd, sd * o1), "int": (sn + k * sd, sd)},
        "__sub__": {"Fraction": (sn * od - on * sd, sd * od), "tuple": (sn * o1 - o0 * sd, sd * o1), "int": (sn - k * sd, sd)},
        "__mul__": {"Fraction": (sn * on, sd * od), "tuple": (sn * o0, sd * o1), "int": (sn * k, sd), "intfloat": (sn * k, sd),
                    "float": (sn * r0, sd * r1)},
        "__truediv__": {"Fraction": (sn * od, sd * on), "tuple": (sn * o1, sd * o0), "int": (sn, sd * k), "intfloat": (sn, sd * k),
                        "float": (sn * r1, sd * r0)},
    }
    n = 0
    for m, cells in exp.items():
        for kind, (wn, wd) in cells.items():
            cell = f"operand kind {kind}"
            try:
                h = _frac_cell(ctx, m, kind)
            except (Unrecognised, NotSymbolic) as e:
                ctx.unrecognised(FR, f"Fraction.{m}", cell, str(e))
                continue
            if h.result is None:
                ctx.unrecognised(FR, f"Fraction.{m}", cell, "no Fraction(...) result on this path")
                continue
            gn, gd = h.result
            n += 1
            ok = gn is not NONE and gd is not NONE and (gn * wd).equals(wn * gd)
            ctx.check(ok, FR, f"Fraction.{m}", f"value as (num, den): {cell}", detail=[gn.key(), gd.key()], expected=[wn.key(), wd.key()])
            if kind == "float":
                raw = "k" in (gn.atoms() | gd.atoms())
                ctx.check(not raw, FR, f"Fraction.{m}", "a possibly non-integral factor does not reach the truncating constructor",
                          detail=[gn.key(), gd.key()], expected="rationalised factor (int() in Fraction.__init__ would truncate)")
    ctx.floor("fraction arithmetic cells", n, 14)
    # negation, equality, constructor, readers
    try:
        h = _frac_cell(ctx, "__neg__", "Fraction")
        if h.result is None:
            raise Unrecognised("no Fraction(...) result")
        gn, gd = h.result
        ctx.check((gn * sd).equals(-sn * gd), FR, "Fraction.__neg__", "value is -num/den", detail=[gn.key(), gd.key()], expected=["-sn", "sd"])
    except (Unrecognised, NotSymbolic, IndexError) as e:
        ctx.unrecognised(FR, "Fraction.__neg__", "value", str(e))
    fn = ctx.fn(FR, "Fraction.__eq__")
    b = K.body_nodoc(fn)
    ok = False
    det = None
    if len(b) == 1 and isinstance(b[0], ast.Return) and isinstance(b[0].value, ast.Call) and dotted_name(b[0].value.func) in ("isclose", "math.isclose") \
            and len(b[0].value.args) == 2:
        ev = SymEval({"self.num": sn, "self.den": sd, "other.num": on, "other.den": od})
        a, c = ev.ev(b[0].value.args[0]), ev.ev(b[0].value.args[1])
        det = [a.key(), c.key()]
        ok = (a.equals(sn * od) and c.equals(on * sd)) or (a.equals(on * sd) and c.equals(sn * od))
    ctx.check(ok, FR, "Fraction.__eq__", "equality by cross-multiplication of (num, den)", detail=det, expected=[(sn * od).key(), (on * sd).key()])
    fn = ctx.fn(FR, "Fraction.__init__")
    b = [norm(s) for s in K.body_nodoc(fn)]
    ctx.form(b == ["self.num = int(num)", "self.den = int(den)"], FR, "Fraction.__init__", "stores (num, den) in that order", detail=b)
    fn = ctx.fn(FR, "Fraction.from_string")
    s = norm(fn)
    ctx.form("num, den = value.split(SYMBOL_FRACTION)" in s and "return Fraction(int(num), int(den))" in s and "return Fraction(int(value), 1)" in s,
              FR, "Fraction.from_string", "reads num<SYMBOL_FRACTION>den or a whole number")
    fn = ctx.fn(FR, "Fraction.from_tuple")
    b = K.body_nodoc(fn)
    if len(b) == 1 and isinstance(b[0], ast.Return) and isinstance(b[0].value, ast.Call) and dotted_name(b[0].value.func) == "Fraction" \
            and len(b[0].value.args) == 2 and all(isinstance(a, ast.Subscript) and isinstance(a.slice, ast.Constant) for a in b[0].value.args):
        idx = [a.slice.value for a in b[0].value.args]
        ctx.check(idx == [0, 1], FR, "Fraction.from_tuple", "(num, den) = (tuple[0], tuple[1])", detail=idx, expected=[0, 1])
    else:
        ctx.unrecognised(FR, "Fraction.from_tuple", "order", "not `return Fraction(value[i], value[j])`")
    # normal form: sign on the numerator, gcd removed
    fn = ctx.fn(FR, "Fraction.rebase")
    s = norm(fn)
    ctx.form("np.gcd(num, den)" in s and "self.num, self.den = reduce(self.num, self.den)" in s, FR, "Fraction.rebase", "common divisors are removed")
    ctx.form(s.count("self.num = -self.num") == 2 and s.count("self.den = -self.den") == 2 and "self.den < 0" in s, FR, "Fraction.rebase",
              "a negative denominator is normalised by negating both parts")
    fn = ctx.fn(FR, "Fraction.value")
    s = norm(fn)
    ctx.form("return self.num / self.den" in s and "return (self.num, self.den)" in s, FR, "Fraction.value", "value forms are num/den and (num, den)")


# ---------------------------------------------------------------- R7
def r7_render_read(ctx):
    mult = module_const(ctx.repo, "SYMBOL_MULTIPLY")
    frac = module_const(ctx.repo, "SYMBOL_FRACTION")
    cfg = [c for c in all_configs(ctx.repo) if c.relpath == US]
    if len(cfg) != 1:
        raise AnalysisError("unit solver configuration not found")
    syms = {k: cfg[0].symbol(ctx.repo, v) for k, v in cfg[0].operators.items()}
    ctx.check(syms.get("mul") == mult, US, "UnitSolver", "the joining symbol of rendered units is the solver's multiplication symbol",
              detail={"SYMBOL_MULTIPLY": mult, "operators": syms})
    ctx.check(set(syms) >= {"par", "mul", "truediv"} and syms.get("truediv") == "/" and syms.get("par") == "(", US, "UnitSolver",
              "unit expressions support products, quotients and parentheses", detail=syms)
    fn = ctx.fn(US, "AtomParser")
    pat = None
    for n in ast.walk(fn):
        if isinstance(n, ast.Call) and dotted_name(n.func) == "re.search":
            pat = Evaluator(ctx.repo, ctx.repo.module(US)).ev(n.args[0])
    m = _re.match(r"^\[([^\]]+)\]\+\$$", pat or "")
    ok = bool(m) and set("0123456789") <= _expand_class(m.group(1)) and frac in _expand_class(m.group(1)) and "-" in _expand_class(m.group(1))
    ctx.check(ok, US, "AtomParser", "exponent character class accepts digits, '-' and the fraction symbol the renderer emits",
              detail=pat, expected=f"[0-9{frac}+-]+$")
    fn = ctx.fn(FR, "Fraction.__str__")
    s = norm(fn)
    ctx.form("return f'{self.num}{SYMBOL_FRACTION}{self.den}'" in s and "return str(self.num)" in s, FR, "Fraction.__str__",
              "exponent is rendered as num or num<SYMBOL_FRACTION>den")
    sid = module_const(ctx.repo, "SYMBOL_UNITID")
    ssys = module_const(ctx.repo, "SYMBOL_SYSTEM_UNIT")
    cols, rows = unit_standard(ctx.repo)
    pc, prows = unit_prefixes(ctx.repo)
    clash = [u for u in list(rows) + list(prows) if sid in u or mult in u or u.startswith(ssys) or any(ch in u for ch in "()/ ")]
    ctx.check(not clash, SETTINGS, "UNIT_STANDARD", "no table symbol contains a structural character of unit expressions", detail=clash or None)
    digit_end = [u for u in rows if u[-1].isdigit() or u[-1] in "+-" + frac]
    ctx.check(not digit_end, SETTINGS, "UNIT_STANDARD", "no unit symbol ends with an exponent character", detail=digit_end or None)


def _expand_class(body):
    out = set()
    i = 0
    while i < len(body):
        if i + 2 < len(body) and body[i + 1] == "-" and body[i + 2] != "]":
            for c in range(ord(body[i]), ord(body[i + 2]) + 1):
                out.add(chr(c))
            i += 3
        else:
            out.add(body[i])
            i += 1
    return out


# ---------------------------------------------------------------- R8
def r8_tables(ctx):
    cols, rows = unit_standard(ctx.repo)
    pc, prows = unit_prefixes(ctx.repo)
    dims = module_const(ctx.repo, "DIMENSION_LIST")
    ctx.floor("unit rows", len(rows), 150)
    ctx.floor("prefix rows", len(prows), 20)
    bad = []
    for u, r in rows.items():
        if len(r) != len(cols):
            bad.append((u, "arity"))
            continue
        d = dict(zip(cols, r))
        if not (isinstance(d["dimensions"], list) and len(d["dimensions"]) == len(dims)):
            bad.append((u, "dimension vector length"))
        p = d["prefixes"]
        if not (p is True or p is False or (isinstance(p, list) and all(x in prows for x in p))):
            bad.append((u, f"prefixes {p!r}"))
        if not isinstance(d["magnitude"], (int, float)) or isinstance(d["magnitude"], bool) or not d["magnitude"] > 0:
            bad.append((u, f"magnitude {d['magnitude']!r}"))
    for pfx, r in prows.items():
        if not (len(r) >= 2 and isinstance(r[0], (int, float)) and r[0] > 0 and all(x == 0 for x in r[1])):
            bad.append((pfx, "prefix row"))
    ctx.check(not bad, SETTINGS, "UNIT_STANDARD", "rows are well-formed (arity, 8 dimensions, admissible prefixes, positive factor)",
              detail=bad[:8] or None)
    # all admissible spellings
    spellings = {}
    pi = cols.index("prefixes")
    for u, r in rows.items():
        spellings.setdefault(u, []).append(("", u))
        p = r[pi]
        plist = list(prows) if p is True else (p if isinstance(p, list) else [])
        for pf in plist:
            spellings.setdefault(pf + u, []).append((pf, u))
    dup = {s: v for s, v in spellings.items() if len(v) > 1}
    ctx.check(not dup, SETTINGS, "UNIT_STANDARD", "no two (prefix, unit) pairs spell the same symbol", detail=dict(list(dup.items())[:6]) or None)
    # longest-suffix rule: for every admissible prefix+unit the longest table symbol that is a suffix is the unit
    shadow = []
    symbols = sorted(rows, key=len, reverse=True)
    n = 0
    for s, v in spellings.items():
        (pf, u) = v[0]
        n += 1
        longest = next(x for x in symbols if s.endswith(x))
        if longest != u:
            shadow.append((s, f"meant {pf}+{u}", f"parsed with unit {longest}"))
    ctx.info["spellings_checked"] = n
    ctx.check(not shadow, SETTINGS, "UNIT_STANDARD", "longest-suffix parsing recovers the intended (prefix, unit) for every admissible spelling",
              detail=shadow[:8] or None)
    # generated quantity-unit rows
    try:
        mod = ctx.repo.module(UL)
        q = Evaluator(ctx.repo, mod).ev(mod.assigns["QUANTITY_UNITS"])
        badq = [k for k, v in q.items() if not (len(v) == 2 and isinstance(v[1], list) and len(v[1]) == len(dims) and k.startswith("#"))]
        ctx.check(not badq, UL, "QUANTITY_UNITS", "system-unit rows are (factor, 8 dimensions) keyed by #symbol", detail=badq[:5] or None)
        ctx.floor("system unit rows", len(q), 100)
    except (AnalysisError, KeyError) as e:
        ctx.unrecognised(UL, "QUANTITY_UNITS", "table", str(e))
    types = module_const(ctx.repo, "UNIT_TYPES")
    di = cols.index("definition")
    unk = [u for u, r in rows.items() if isinstance(r[di], ClassRef) and r[di] not in types]
    ctx.check(not unk, SETTINGS, "UNIT_STANDARD", "conversion classes named by rows are registered in UNIT_TYPES", detail=unk or None)


# ---------------------------------------------------------------- R9
def _dim_loop(fn):
    for lp in [n for n in fn.body if isinstance(n, ast.For)]:
        if norm(lp.iter) == "DIMENSION_LIST":
            return lp
    return None


def _component_assign(lp_body):
    """`dimensions[name] = getattr(self, name) <op> <arg>` -> (op, arg) or None"""
    if len(lp_body) == 1 and isinstance(lp_body[0], ast.Assign) and norm(lp_body[0].targets[0]) == "dimensions[name]" \
            and isinstance(lp_body[0].value, ast.BinOp) and norm(lp_body[0].value.left) == "getattr(self, name)" \
            and type(lp_body[0].value.op) in OPSYM:
        return OPSYM[type(lp_body[0].value.op)], norm(lp_body[0].value.right)
    return None


def r9_dimensions(ctx):
    G = "getattr(self, name)"
    for m, op in (("__add__", "+"), ("__sub__", "-")):
        fn = ctx.fn(DM, f"Dimensions.{m}")
        lp = _dim_loop(fn)
        cells = None
        if lp is not None and len(lp.body) == 1 and isinstance(lp.body[0], ast.If) and norm(lp.body[0].test) == "isinstance(other, Dimensions)":
            cells = (_component_assign(lp.body[0].body), _component_assign(lp.body[0].orelse))
        if not cells or None in cells or norm(fn.body[-1]) != "return Dimensions(**dimensions)":
            ctx.unrecognised(DM, f"Dimensions.{m}", "component loop", "loop over DIMENSION_LIST with the two operand kinds not recognised")
            continue
        ctx.check(cells == ((op, "getattr(other, name)"), (op, "other")), DM, f"Dimensions.{m}", f"component-wise {op} over every dimension",
                  detail=cells, expected=((op, "getattr(other, name)"), (op, "other")))
    for m, op, arg in (("__mul__", "*", "other"), ("__truediv__", "/", "other"), ("__neg__", "*", "-1")):
        fn = ctx.fn(DM, f"Dimensions.{m}")
        lp = _dim_loop(fn)
        c = _component_assign(lp.body) if lp is not None else None
        if c is None or norm(K.body_nodoc(fn)[-1]) != "return Dimensions(**dimensions)":
            ctx.unrecognised(DM, f"Dimensions.{m}", "component loop", "loop over DIMENSION_LIST not recognised")
            continue
        ctx.check(c == (op, arg), DM, f"Dimensions.{m}", f"every component {op} {arg}", detail=c, expected=(op, arg))
    # equality: every component, compared as fractions
    fn = ctx.fn(DM, "Dimensions.__eq__")
    lp = _dim_loop(fn)
    src = norm(fn)
    loop_form = lp is not None and len(lp.body) == 1 and isinstance(lp.body[0], ast.If) and \
        norm(lp.body[0].test) in (f"not {G} == getattr(other, name)", f"{G} != getattr(other, name)") and \
        [norm(s) for s in lp.body[0].body] == ["return False"] and norm(fn.body[-1]) == "return True"
    all_form = f"all(({G} == getattr(other, name) for name in DIMENSION_LIST))" in src
    if loop_form or all_form:
        ctx.holds(DM, "Dimensions.__eq__", "two vectors are equal iff every component fraction is equal (by value)")
    elif ".value(" in src and "==" in src:
        ctx.violated(DM, "Dimensions.__eq__", "two vectors are equal iff every component fraction is equal (by value)",
                     detail="compares derived representations (value(...)) instead of the component fractions",
                     expected="equal fractions have different representations when unreduced (6/2 -> (3,1) vs 3): compare with Fraction.__eq__")
    else:
        ctx.unrecognised(DM, "Dimensions.__eq__", "equality", "component-wise comparison idiom not recognised")
    fn = ctx.fn(DM, "Dimensions.from_list")
    s = norm(fn)
    ok = "for n, name in enumerate(DIMENSION_LIST)" in s and "units[name] = Fraction.from_tuple(value[n])" in s and \
        "units[name] = Fraction(value[n])" in s and "return Dimensions(**units)" in s
    ctx.form(ok, DM, "Dimensions.from_list", "position n of the list is the exponent of dimension name n")
    fn = ctx.fn(DM, "Dimensions.__post_init__")
    s = norm(fn)
    ctx.form("for name in DIMENSION_LIST" in s and "getattr(self, name).num != 0" in s and "self.nodim = False" in s, DM,
             "Dimensions.__post_init__", "nodim is false as soon as one exponent is non-zero")
    dims = module_const(ctx.repo, "DIMENSION_LIST")
    c = ctx.repo.cls(DM, "Dimensions")
    fields = [st.target.id for st in c.body if isinstance(st, ast.AnnAssign) and isinstance(st.target, ast.Name)]
    ctx.check(fields[: len(dims)] == list(dims), DM, "Dimensions", "fields are the dimensions of DIMENSION_LIST in order", detail=fields)


def r10_solver_state(ctx):
    _C02.r1_kill_before_use(ctx)
    fn = ctx.fn(US, "UnitSolver")
    built = [c for c in ast.walk(fn) if isinstance(c, ast.Call) and dotted_name(c.func) == "ExpressionSolver"]
    mod = ctx.repo.module(US)
    shared = [norm(st)[:80] for st in mod.tree.body if isinstance(st, ast.Assign) and any(isinstance(c, ast.Call) and dotted_name(c.func) == "ExpressionSolver" for c in ast.walk(st))]
    ctx.check(bool(built) and not shared, US, "UnitSolver", "every unit string is parsed by its own solver instance (no module-level solver shared between calls)",
              detail=shared or [norm(c)[:60] for c in built])


RULES = [
    ("C03.R1", "atom parser residual-text discipline: anchored number pattern; anchored exponent suffix; longest table suffix as unit; the remainder is exactly a prefix (whole-string membership) or empty, otherwise an error; no single-character truncation", r1_atom_parser),
    ("C03.R3", "exponent bookkeeping under * and /: present key => old +/- exp, absent key => +/- exp; factors * and /; siblings agree", r3_exponent_algebra),
    ("C03.R4", "per-unit factor (prefix*unit)**exp and dimensions*exp for system, prefixed and plain ids", r4_unit_base),
    ("C03.R5", "BaseUnits accumulates factors multiplicatively, dimensions additively, drops zero exponents, joins texts with the multiplication symbol", r5_accumulation),
    ("C03.R6", "Fraction arithmetic as identities on (num, den) for Fraction/tuple/int/float operands; equality by cross-multiplication; normal form", r6_fraction),
    ("C03.R7", "renderer/reader agreement: multiplication symbol, exponent alphabet, fraction symbol; no table symbol contains structural characters", r7_render_read),
    ("C03.R8", "table well-formedness; unique spellings; longest-suffix parsing recovers every admissible (prefix, unit) spelling", r8_tables),
    ("C03.R9", "dimension vectors: component-wise + - * / neg over DIMENSION_LIST, equality over every component, list positions = dimension order", r9_dimensions),
    ("C03.R10", "a unit string is parsed independently of earlier (possibly rejected) ones: fresh solver per call and empty buffers per solve (shared with C02.R1)", r10_solver_state),
]
