"""C03 — a unit expression means the product of its table entries. Decided: (R1) residual-text
discipline of the unit atom parser: numbers only through an anchored regex, the exponent is an
anchored suffix, the unit symbol is the longest table suffix, what remains must be *exactly* a
prefix (whole-string membership) or empty, nothing is discarded; (R2) prefix admissibility table;
(R3) exponent bookkeeping of Atom and BaseUnits under * and / (present/absent key, sibling
agreement); (R4) per-unit factor (prefix*unit)**exp and dimensions*exp for the three id forms;
(R5) accumulation of factors, dimensions and text; (R6) rational arithmetic of Fraction as
identities on (num, den) for every operand kind, including that no possibly non-integral value
reaches the truncating constructor; (R7) the alphabet the renderer emits is the one the reader
accepts; (R8) table well-formedness and absence of longest-suffix / prefix ambiguity, exhaustively
over all rows x prefixes; (R9) dimension-vector algebra component-wise, equality over every
component. NOT decided: numeric values of tabulated factors; round trip of values. (R11) the unit tables are changed only by a registration that records exactly what it added and removes exactly that (shared with C09.R2/R3)."""
import ast
import re as _re

from ..literal import ClassRef, Evaluator
from ..model import AnalysisError, dotted_name, methods, norm, walk_no_nested
from ..predtable import Unrecognised
from ..solvercfg import all_configs
from ..symexec import NONE, SymHandler, execute
from ..symexpr import NotSymbolic, SymEval, Term, func
from ..unittables import SETTINGS, module_const, unit_prefixes, unit_standard
from . import common as K

from . import C02 as _C02

LEVEL_TEXT = ("static analysis (ast): residual-text discipline of the unit atom parser, decision tables, symbolic "
              "identities of the exponent/fraction/dimension algebra for every operand kind, and exhaustive "
              "well-formedness/ambiguity checks over the literal unit tables (153 rows x 20 prefixes)")
LEVEL_NOTE = ("trusted: tabulated numeric factors (recomputed from definitions by the existing suite); Python's re "
              "semantics for anchors and character classes; str.endswith/in on exact strings")
TECHNIQUE = "ast cursor/residual-text rules, symbolic (num,den) identities, exhaustive literal-table checks (static analysis)"

US = "src/scinumtools/units/unit_solver.py"
BU = "src/scinumtools/units/base_units.py"
FR = "src/scinumtools/units/fraction.py"
DM = "src/scinumtools/units/dimensions.py"
UL = "src/scinumtools/units/unit_list.py"


# ---------------------------------------------------------------- R1 / R2
def _unstrip(e):
    while isinstance(e, ast.Call) and isinstance(e.func, ast.Attribute) and e.func.attr in ("strip", "lstrip", "rstrip") and not e.args and not e.keywords:
        e = e.func.value
    return e


def r1_atom_parser(ctx):
    fn = ctx.fn(US, "AtomParser")
    p = fn.args.args[0].arg
    body = fn.body
    # (a) number literal only through an anchored regular expression: on every path that returns a unit-less
    #     Atom(float(<input>)) a successful re.match of str(<input>) against an anchored numeric pattern was tested
    from ..flowexpr import paths as _paths
    S = p
    num_paths, guards, unguarded = 0, set(), []
    for q in _paths(fn):
        fl = [i for i, e in enumerate(q.events) if e.resolved is not None and any(isinstance(c, ast.Call) and dotted_name(c.func) == "float" and S in norm(c)
                                                                                 for c in ast.walk(e.resolved))]
        if not fl:
            continue
        num_paths += 1
        before = [e for e in q.events[:fl[0] + 1] if e.kind == "test"]
        found = None
        for t in before:
            r = t.resolved
            neg = isinstance(r, ast.UnaryOp) and isinstance(r.op, ast.Not)
            if neg:
                r = r.operand
            if isinstance(r, ast.Compare) and len(r.ops) == 1 and isinstance(r.ops[0], (ast.Is, ast.IsNot)) and isinstance(r.comparators[0], ast.Constant) and r.comparators[0].value is None:
                neg = neg != isinstance(r.ops[0], ast.Is)
                r = r.left
            if isinstance(r, ast.Call) and dotted_name(r.func) in ("re.match", "re.fullmatch") and len(r.args) == 2 and norm(r.args[1]) in (f"str({S})", S) \
                    and t.extra == (not neg):
                try:
                    found = (dotted_name(r.func), Evaluator(ctx.repo, ctx.repo.module(US)).ev(r.args[0]))
                except AnalysisError:
                    found = ("?", None)
        if found is None:
            unguarded.append([norm(t.resolved)[:60] for t in before])
        else:
            guards.add(found)
    if num_paths == 0:
        ctx.unrecognised(US, "AtomParser", "numeric factor is accepted only through an anchored regular expression", "no float(<input>) conversion found")
    elif unguarded and all(not u for u in unguarded):
        ctx.violated(US, "AtomParser", "numeric factor is accepted only through an anchored regular expression",
                     detail="float(<text>) without a dominating anchored re.match", expected="float() alone also accepts '1_0', 'nan', 'inf', 'infinity'")
    elif unguarded or any(g[1] is None for g in guards):
        ctx.unrecognised(US, "AtomParser", "numeric factor is accepted only through an anchored regular expression", f"guarding tests not interpreted: {unguarded[:1]}")
    else:
        for kind, pat in sorted(guards):
            anch = kind == "re.fullmatch" or (pat.startswith("^") and pat.endswith("$"))
            alphabet = set(_re.sub(r"\\.", "", pat)) - set("^$()[]|?+*{}\\")
            ctx.check(anch and alphabet <= set("0123456789.e+-"), US, "AtomParser", "number literal pattern is anchored and numeric",
                      detail=pat, expected="^...$ over digits . e + -")
        ctx.holds(US, "AtomParser", "a number becomes a factor without units", detail=f"{num_paths} path(s)")
    _residual_text(ctx, fn, p)


def _find(expr, pred):
    return [n for n in ast.walk(expr) if pred(n)] if expr is not None else []


def _is_table(n, name):
    return norm(n) in (name, name + ".keys()")


def _suffix_comp(n):
    """[u for u in UNIT_STANDARD(.keys()) if T.endswith(u)] -> T, else None."""
    if isinstance(n, (ast.ListComp, ast.GeneratorExp)) and len(n.generators) == 1 and _is_table(n.generators[0].iter, "UNIT_STANDARD"):
        g = n.generators[0]
        for t in g.ifs:
            if isinstance(t, ast.Call) and isinstance(t.func, ast.Attribute) and t.func.attr == "endswith" and len(t.args) == 1 \
                    and norm(t.args[0]) == norm(g.target) and norm(n.elt) == norm(g.target):
                return t.func.value
    return None


def _residual_text(ctx, fn, p):
    """Value-level reading of the parser: every expression is resolved along each path to an expression over the
    parameter and the tables, so local names, temporaries and the statement layout do not matter."""
    from ..flowexpr import expr_from, paths, same
    S = ast.Name(id=p, ctx=ast.Load())
    allp = paths(fn)
    # drop the number-literal paths (first test true)
    main = [q for q in allp if q.tests() and not (q.tests()[0].extra is True and "re.match" in norm(q.tests()[0].resolved))]
    ctx.info["AtomParser paths"] = {"all": len(allp), "unit paths": len(main)}
    if not main:
        ctx.unrecognised(US, "AtomParser", "residual text", "no path past the number literal")
        return
    pads, exps, bases_ok, unknown_ok, rem, member, nonmember, singles = set(), [], [], [], [], [], [], []
    prefix_by_suffix = False
    exp_pat = None
    cells = {}
    for q in main:
        search = None
        for e in q.events:
            for c in _find(e.resolved, lambda n: isinstance(n, ast.Call) and dotted_name(n.func) == "re.search" and len(n.args) == 2):
                search = c
        if search is None:
            continue
        X = search.args[1]
        if isinstance(X, ast.BinOp) and isinstance(X.op, ast.Add) and isinstance(X.left, ast.Constant) and same(X.right, S):
            pads.add(X.left.value)
        else:
            pads.add("?" + norm(X))
        try:
            exp_pat = Evaluator(ctx.repo, ctx.repo.module(US)).ev(search.args[0])
        except AnalysisError:
            exp_pat = None
        matched = next((e.extra for e in q.tests() if same(e.resolved, search)), None)
        if matched is None:
            matched = next((not e.extra for e in q.tests() if isinstance(e.resolved, ast.UnaryOp) and same(e.resolved.operand, search)), None)
        if matched is None:
            for e in q.tests():
                r_ = e.resolved
                if isinstance(r_, ast.Compare) and len(r_.ops) == 1 and same(r_.left, search) and isinstance(r_.comparators[0], ast.Constant) and r_.comparators[0].value is None:
                    if isinstance(r_.ops[0], ast.Is):
                        matched = not e.extra
                    elif isinstance(r_.ops[0], ast.IsNot):
                        matched = e.extra
        if matched is None:
            ctx.form(False, US, "AtomParser", "the outcome of the exponent search is tested on every path that goes on to the unit symbol", detail=[norm(e.resolved)[:60] for e in q.tests()][:4])
            continue
        # subject of the table-suffix search
        T = comp = None
        for e in q.events:
            for c in _find(e.resolved, lambda n: _suffix_comp(n) is not None):
                comp, T = c, _suffix_comp(c)
        if T is None:
            continue          # path ends before the unit symbol is looked up (system unit, ...)
        want_T = expr_from("X[:-len(M.group())]", X=X, M=search) if matched else X
        exps.append((matched, same(T, want_T), norm(T)))
        BASE = expr_from("max(C, key=len)", C=comp)
        # empty candidate list => error
        for e in q.tests():
            neg = isinstance(e.resolved, ast.UnaryOp) and isinstance(e.resolved.op, ast.Not)
            if same(e.resolved, comp) or (neg and same(e.resolved.operand, comp)):
                empty = (not e.extra) if not neg else e.extra
                if empty:
                    unknown_ok.append(q.status == "raise")
        has_base = any(_find(e.resolved, lambda n: same(n, BASE)) for e in q.events)
        if q.status != "raise" or has_base:
            bases_ok.append(has_base)
        # membership test of the remainder
        mt = None
        for e in q.tests():
            r = e.resolved
            if isinstance(r, ast.Compare) and len(r.ops) == 1 and isinstance(r.ops[0], ast.In) and _is_table(r.comparators[0], "UNIT_PREFIXES"):
                mt = e
                break
        for e in q.events:
            for c in _find(e.resolved, lambda n: isinstance(n, (ast.ListComp, ast.GeneratorExp)) and len(n.generators) == 1
                           and _is_table(n.generators[0].iter, "UNIT_PREFIXES") and "endswith" in norm(n)):
                prefix_by_suffix = True
        if mt is None:
            if has_base and q.status != "raise":
                member.append(None)
            continue
        L = mt.resolved.left
        member.append(norm(mt.resolved))
        want_L = expr_from("T[1:-len(B)]", T=T, B=BASE)
        if same(L, want_L):
            rem.append(("ok", norm(L)))
        elif isinstance(_unstrip(L), ast.Subscript) and same(_unstrip(L).value, T) and not isinstance(_unstrip(L).slice, ast.Slice):
            singles.append(norm(L))           # one character of the text (stripped of blanks or not): longer prefixes are cut down
            rem.append(("index", norm(L)))
        elif isinstance(L, ast.Subscript) and same(L.value, T) and isinstance(L.slice, ast.Slice):
            rem.append(("slice", norm(L)))
        else:
            rem.append(("other", norm(L)))
        after = q.tests()[q.tests().index(mt) + 1:]
        if mt.extra is False:
            # non-member: non-empty text must be an error
            accepted = {norm(expr_from(t, L=L)): k for t, k in (("len(L) > 0", True), ("L", True), ("len(L) >= 1", True), ("L != ''", True),
                                                                  ("len(L) == 0", False), ("not L", False), ("L == ''", False))}
            if not after:
                nonmember.append(("none", q.status))
            else:
                t = after[0]
                k = norm(t.resolved)
                if k in accepted:
                    nonempty = t.extra == accepted[k]
                    nonmember.append(("ok" if (q.status == "raise") == nonempty else "wrong-outcome", k))
                elif isinstance(t.resolved, ast.Compare) and norm(t.resolved.left) == norm(expr_from("len(L)", L=L)):
                    nonmember.append(("threshold", k))
                else:
                    nonmember.append(("other", k))
        else:
            cells.setdefault("paths", []).append((q, L, BASE, after))
    ctx.check(pads == {" "}, US, "AtomParser", "input is padded with exactly one leading blank", detail=sorted(pads)) if not any(str(x).startswith("?") for x in pads) and pads \
        else ctx.unrecognised(US, "AtomParser", "input is padded with exactly one leading blank", f"searched text is {sorted(pads)}")
    bad = [e for e in exps if not e[1]]
    if not exps:
        ctx.unrecognised(US, "AtomParser", "exponent is an anchored suffix and exactly its length is removed", "no table-suffix search found after the exponent search")
    else:
        ctx.check(not bad and isinstance(exp_pat, str) and exp_pat.endswith("$"), US, "AtomParser",
                  "exponent is an anchored suffix and exactly its length is removed",
                  detail={"pattern": exp_pat, "text searched for the unit symbol": sorted({("exponent found: " if e[0] else "no exponent: ") + e[2] for e in exps})},
                  expected="text[:-len(m.group())] when the exponent matched, the unchanged text otherwise")
    ctx.form(bool(bases_ok) and all(bases_ok), US, "AtomParser", "unit symbol is the longest table symbol that is a suffix",
             expected="max(..., key=len) over UNIT_STANDARD symbols with endswith")
    ctx.check(bool(unknown_ok) and all(unknown_ok), US, "AtomParser", "no table symbol is a suffix => error") if unknown_ok \
        else ctx.unrecognised(US, "AtomParser", "no table symbol is a suffix => error", "no test of the candidate list found")
    ctx.check(not singles, US, "AtomParser", "the text in front of the unit symbol is never cut down to a single character",
              detail=singles or None, expected="slice that keeps the whole remainder (e.g. string[1:-len(base)])")
    if prefix_by_suffix and not [m for m in member if m]:
        ctx.violated(US, "AtomParser", "prefix is recognised by whole-string membership",
                     detail="prefix matched with endswith: text in front of the prefix is dropped unmatched",
                     expected="<remainder> in UNIT_PREFIXES")
        return
    if not member or any(m is None for m in member):
        ctx.unrecognised(US, "AtomParser", "prefix decision", "no `<text> in UNIT_PREFIXES` test found on some accepting path")
        return
    ctx.holds(US, "AtomParser", "prefix is recognised by whole-string membership", detail=sorted(set(member))[:2])
    kinds = {r[0] for r in rem}
    if kinds <= {"ok"}:
        ctx.holds(US, "AtomParser", "unit symbol: the pad and exactly the matched suffix are removed, the rest is kept", detail=sorted({r[1] for r in rem})[:2])
    elif kinds & {"slice", "index"}:
        ctx.violated(US, "AtomParser", "unit symbol: the pad and exactly the matched suffix are removed, the rest is kept",
                     detail=sorted({r[1] for r in rem if r[0] != "ok"}), expected="text[1:-len(base)]")
    else:
        ctx.unrecognised(US, "AtomParser", "unit symbol: the pad and exactly the matched suffix are removed, the rest is kept",
                         f"tested remainder is {sorted({r[1] for r in rem if r[0] != 'ok'})[:2]}")
    nk = {n[0] for n in nonmember}
    if nonmember and nk <= {"ok"}:
        ctx.holds(US, "AtomParser", "non-empty text that is not a prefix is an error", detail=sorted({n[1] for n in nonmember})[:2])
    elif nk & {"threshold", "wrong-outcome", "none"}:
        ctx.violated(US, "AtomParser", "non-empty text that is not a prefix is an error",
                     detail=sorted({f"{n[0]}: {n[1]}" for n in nonmember if n[0] != "ok"}), expected="elif len(<remainder>) > 0: raise")
    else:
        ctx.unrecognised(US, "AtomParser", "non-empty text that is not a prefix is an error", f"{sorted({str(n) for n in nonmember})[:3]}")
    # R2: admissibility table over the paths on which the remainder is a prefix
    cp = cells.get("paths", [])
    if not cp:
        ctx.unrecognised(US, "AtomParser", "prefix admissibility", "no path with a recognised prefix", rule="C03.R2")
        return
    for pref_kind in ("list", "True", "False"):
        for listed in (True, False):
            if pref_kind != "list" and not listed:
                continue
            outcomes, unknown = set(), []
            for q, L, BASE, after in cp:
                consistent = True
                for t in after:
                    v = _adm_truth(t.resolved, L, BASE, pref_kind, listed)
                    if v is None:
                        unknown.append(norm(t.resolved)[:120])
                        consistent = None
                        break
                    if v != t.extra:
                        consistent = False
                        break
                if consistent:
                    outcomes.add("raise" if q.status == "raise" else "accept")
            cname = f"admissibility cell prefixes={pref_kind} listed={listed}"
            if unknown and not outcomes:
                ctx.unrecognised(US, "AtomParser", cname, f"test not interpretable: {unknown[0]}", rule="C03.R2")
                continue
            want = "raise" if (pref_kind == "list" and not listed) or pref_kind == "False" else "accept"
            if len(outcomes) != 1:
                ctx.unrecognised(US, "AtomParser", cname, f"paths consistent with the cell give {sorted(outcomes)}", rule="C03.R2")
                continue
            ctx.check(outcomes == {want}, US, "AtomParser", cname, detail=sorted(outcomes)[0], expected=want, rule="C03.R2")
    rets = [norm(e.resolved) for q, L, BASE, after in cp if q.status == "return" for e in q.events if e.kind == "return"]
    Ls = {norm(L) for q, L, BASE, after in cp}
    ctx.form(bool(rets) and all("SYMBOL_UNITID" in r and any(l in r for l in Ls) for r in rets), US, "AtomParser",
             "accepted prefix and unit form the id prefix:unit", detail=rets[:1], rule="C03.R2")


def _adm_truth(t, L, BASE, kind, listed):
    from ..flowexpr import expr_from
    if isinstance(t, ast.BoolOp):
        vs = [_adm_truth(v, L, BASE, kind, listed) for v in t.values]
        if any(v is None for v in vs):
            return None
        return all(vs) if isinstance(t.op, ast.And) else any(vs)
    if isinstance(t, ast.UnaryOp) and isinstance(t.op, ast.Not):
        v = _adm_truth(t.operand, L, BASE, kind, listed)
        return None if v is None else not v
    s = norm(t)
    P = norm(expr_from("UNIT_STANDARD[B].prefixes", B=BASE))
    l = norm(L)
    table = {
        f"isinstance({P}, list)": kind == "list",
        f"{l} not in {P}": not listed,
        f"{l} in {P}": listed,
        f"{P} is True": kind == "True",
        f"{P} is False": kind == "False",
        f"{P} == True": kind == "True",
        f"{P} == False": kind == "False",
        f"{l} not in UNIT_PREFIXES.keys()": False,
        f"{l} not in UNIT_PREFIXES": False,
        f"{l} in UNIT_PREFIXES.keys()": True,
        f"{l} in UNIT_PREFIXES": True,
    }
    if s in table:
        return table[s]
    if s == f"not {P}":
        return kind == "False"
    return None


# ---------------------------------------------------------------- R3
OPSYM = {ast.Add: "+", ast.Sub: "-", ast.Mult: "*", ast.Div: "/"}


def _exponent_update(fn):
    """Abstraction of `for unit,exp in X.items(): d[unit] = d[unit] op exp if unit in d else sexp`:
    dict(iter, present_op, absent_sign) or dict(iter, scale_op, scale_arg); None if the idiom is absent."""
    for lp in [n for n in fn.body if isinstance(n, ast.For)]:
        if len(lp.body) != 1:
            continue
        st = lp.body[0]
        if isinstance(st, ast.Assign) and isinstance(st.value, ast.IfExp) and isinstance(st.targets[0], ast.Subscript):
            ie = st.value
            tgt = norm(st.targets[0])
            out = {"iter": norm(lp.iter), "target": tgt, "test": norm(ie.test)}
            if isinstance(ie.body, ast.BinOp) and norm(ie.body.left) == tgt and type(ie.body.op) in OPSYM:
                out["present_op"] = OPSYM[type(ie.body.op)]
                out["present_arg"] = norm(ie.body.right)
            elif isinstance(ie.body, ast.BinOp) and norm(ie.body.right) == tgt and type(ie.body.op) in OPSYM:
                # `exp - old` instead of `old - exp`: the same for + and *, the opposite sign / the reciprocal for - and /
                out["present_swapped"] = OPSYM[type(ie.body.op)]
                out["present_arg"] = norm(ie.body.left)
            if isinstance(ie.orelse, ast.Name):
                out["absent_sign"], out["absent_arg"] = "+", ie.orelse.id
            elif isinstance(ie.orelse, ast.UnaryOp) and isinstance(ie.orelse.op, ast.USub) and isinstance(ie.orelse.operand, ast.Name):
                out["absent_sign"], out["absent_arg"] = "-", ie.orelse.operand.id
            return out
        if isinstance(st, ast.AugAssign) and isinstance(st.target, ast.Subscript) and type(st.op) in OPSYM:
            return {"iter": norm(lp.iter), "target": norm(st.target), "scale_op": OPSYM[type(st.op)], "scale_arg": norm(st.value)}
    # comprehension form: D = {k: v op X for k, v in S.items()}  (assigned, or handed straight to the constructor / returned)
    comps = [(n.targets[0].id, n.value) for n in fn.body if isinstance(n, ast.Assign) and isinstance(n.value, ast.DictComp) and len(n.targets) == 1 and isinstance(n.targets[0], ast.Name)]
    for r_ in [n for n in fn.body if isinstance(n, ast.Return) and n.value is not None]:
        v_ = r_.value
        if isinstance(v_, ast.Call) and len(v_.args) == 1 and isinstance(v_.args[0], ast.DictComp):
            comps.append(("baseunits", v_.args[0]))
    for name_, dc in comps:
        a = ast.Assign(targets=[ast.Name(id=name_, ctx=ast.Store())], value=dc)
        if len(dc.generators) == 1 and not dc.generators[0].ifs and isinstance(dc.generators[0].target, ast.Tuple) and len(dc.generators[0].target.elts) == 2:
            k, v = (norm(e) for e in dc.generators[0].target.elts)
            if norm(dc.key) == k and isinstance(dc.value, ast.BinOp) and norm(dc.value.left) == v and type(dc.value.op) in OPSYM:
                return {"iter": norm(dc.generators[0].iter), "target": f"{a.targets[0].id}[{k}]", "scale_op": OPSYM[type(dc.value.op)], "scale_arg": norm(dc.value.right)}
    return None


def r3_exponent_algebra(ctx):
    want = {
        (US, "Atom.__mul__"): "+", (US, "Atom.__truediv__"): "-",
        (BU, "BaseUnits.__add__"): "+", (BU, "BaseUnits.__sub__"): "-",
    }
    for (rel, q), op in want.items():
        fn = ctx.fn(rel, q)
        u = _exponent_update(fn)
        if u is not None and u.get("present_swapped") in ("-", "/") and u.get("target") == "baseunits[unit]":
            ctx.violated(rel, q, "exponents: present key => old op exp, absent key => op exp", detail=u,
                         expected={"present": f"baseunits[unit] {op} exp (the old exponent on the left)"})
            continue
        if u is not None and u.get("present_swapped") in ("+", "*"):
            u["present_op"] = u.pop("present_swapped")
        if u is None or "present_op" not in u or "absent_sign" not in u or u.get("iter") != "other.baseunits.items()" \
                or u.get("test") != "unit in baseunits" or u.get("target") != "baseunits[unit]":
            ctx.unrecognised(rel, q, "exponent update", f"present/absent idiom not recognised: {u}")
            continue
        ok = u["present_op"] == op and u["absent_sign"] == op and u["present_arg"] == "exp" and u["absent_arg"] == "exp"
        ctx.check(ok, rel, q, "exponents: present key => old op exp, absent key => op exp", detail=u,
                  expected={"present": f"baseunits[unit] {op} exp", "absent": f"{op}exp"})
        pre = [norm(s) for s in fn.body]
        if "baseunits = self.baseunits" in pre:
            ctx.violated(rel, q, "works on a copy of the left operand's exponents", detail="baseunits = self.baseunits: the loop below writes the result into the operand's own table",
                         expected="baseunits = dict(self.baseunits)")
        else:
            ctx.form("baseunits = dict(self.baseunits)" in pre, rel, q, "works on a copy of the left operand's exponents")
        # no path hands back an operand without merging, unless its guard says the other operand has no units at all
        from ..flowexpr import paths as _paths
        NO_UNITS = {"other.nobase": True, "not other.baseunits": True, "len(other.baseunits) == 0": True, "other.baseunits": False, "len(other.baseunits)": False,
                    "other.baseunits == {}": True}
        for pth in _paths(fn):
            r = next((e.resolved for e in pth.events if e.kind == "return"), None)
            if pth.status != "return" or r is None or norm(r) not in ("self", "other"):
                continue
            guards = [(norm(t.resolved), t.extra) for t in pth.tests()]
            proven = any(NO_UNITS.get(g) is not None and NO_UNITS[g] == v for g, v in guards)
            what = "the exponents of the right operand are merged on every path (an operand is handed back only when the other one has no units)"
            if proven:
                ctx.holds(rel, q, what)
            else:
                ctx.violated(rel, q, what, detail={"returns": norm(r), "under": [f"{g} is {v}" for g, v in guards]},
                             expected="a unit with zero dimensions (%, ppth, [pi]) still has a factor: only `nobase` means no units")
    for q, op in (("Atom.__mul__", "*"), ("Atom.__truediv__", "/")):
        fn = ctx.fn(US, q)
        mg = [s for s in fn.body if isinstance(s, ast.Assign) and norm(s.targets[0]) == "magnitude" and isinstance(s.value, ast.BinOp)]
        if len(mg) != 1 or norm(mg[0].value.left) != "self.magnitude" or norm(mg[0].value.right) != "other.magnitude" \
                or norm(fn.body[-1]) != "return Atom(magnitude, baseunits)":
            ctx.unrecognised(US, q, "numeric factor", "magnitude = self.magnitude <op> other.magnitude not found")
            continue
        got = OPSYM.get(type(mg[0].value.op))
        ctx.check(got == op, US, q, "numeric factors combine with the same operator as the exponents", detail=got, expected=op)
    for q, op, arg in (("BaseUnits.__mul__", "*", "other"), ("BaseUnits.__truediv__", "/", "div")):
        fn = ctx.fn(BU, q)
        u = _exponent_update(fn)
        if u is None or "scale_op" not in u or u["iter"] != "self.baseunits.items()" or u["target"] != "baseunits[unit]":
            ctx.unrecognised(BU, q, "exponent scaling", f"idiom not recognised: {u}")
            continue
        a0 = fn.args.args[1].arg
        ctx.check(u["scale_op"] == op and u["scale_arg"] == a0, BU, q, "every exponent is scaled by the factor", detail=u,
                  expected=f"baseunits[unit] {op}= {a0}")


# ---------------------------------------------------------------- R4 / R5
def _sym(src, env=None):
    return SymEval(env or {}).ev(ast.parse(src, mode="eval").body)


def r4_unit_base(ctx):
    """Value-level: on every path the returned Base(magnitude, dimensions, ...) is resolved to an expression over
    the unit id, the exponent and the tables, and compared as a term with the definition of the id form the
    path's tests select."""
    from ..flowexpr import paths
    fn = ctx.fn(BU, "get_unit_base")
    uid = fn.args.args[0].arg
    ex = fn.args.args[1].arg if len(fn.args.args) > 1 else "exp"
    E = f"{ex}.value(dtype=float)"
    want = {
        "system": (f"QUANTITY_UNITS[{uid}][0] ** EXP", f"Dimensions.from_list(QUANTITY_UNITS[{uid}][1]) * {ex}", None, uid),
        "prefixed": ("(UNIT_PREFIXES[PRE].magnitude * UNIT_STANDARD[BASE].magnitude) ** EXP",
                     f"Dimensions.from_list(UNIT_STANDARD[BASE].dimensions) * {ex}", "PRE", "BASE"),
        "plain": (f"UNIT_STANDARD[{uid}].magnitude ** EXP", f"Dimensions.from_list(UNIT_STANDARD[{uid}].dimensions) * {ex}", None, uid),
    }
    split = f"{uid}.split(SYMBOL_UNITID)"
    seen = {}
    for q in paths(fn):
        if q.status != "return":
            continue
        form = None
        skip = False
        for t in q.tests():
            k = norm(t.resolved)
            if k == f"{ex} is None":
                skip = skip or t.extra
            elif k == f"{uid}.startswith(SYMBOL_SYSTEM_UNIT)":
                if t.extra and form is None:
                    form = "system"
            elif k in (f"SYMBOL_UNITID in {uid}",):
                if form is None:
                    form = "prefixed" if t.extra else "plain"
        if skip:
            continue
        ret = [e for e in q.events if e.kind == "return"][-1].resolved
        if form is None or not (isinstance(ret, ast.Call) and dotted_name(ret.func) == "Base" and len(ret.args) == 4):
            ctx.unrecognised(BU, "get_unit_base", "id forms", f"path with tests {[norm(t.resolved)[:50] for t in q.tests()]} not classified")
            continue
        seen.setdefault(form, []).append((q, ret))
    for name in ("system", "prefixed", "plain"):
        if name not in seen:
            ctx.unrecognised(BU, "get_unit_base", f"{name}: magnitude", "term not found / not symbolic")
            continue
        wm, wd, wpre, wbase = want[name]
        for t, wsrc, idx in (("magnitude", wm, 0), ("dimensions", wd, 1)):
            verdicts, found = [], []
            for q, ret in seen[name]:
                src = norm(_replace_exp(ret.args[idx], E))
                src = src.replace(split + "[0]", "PRE").replace(split + "[1]", "BASE")
                try:
                    g = SymEval({}).ev(ast.parse(src, mode="eval").body)
                    w = SymEval({}).ev(ast.parse(wsrc, mode="eval").body)
                except (NotSymbolic, SyntaxError):
                    verdicts.append(None)
                    continue
                verdicts.append(g.equals(w))
                found.append(g.key())
            if any(v is None for v in verdicts):
                ctx.unrecognised(BU, "get_unit_base", f"{name}: {t}", "term not found / not symbolic")
            else:
                ctx.check(all(verdicts), BU, "get_unit_base", f"{name} id: {t}", detail=sorted(set(found))[0], expected=wsrc)
    # id split: prefix first, unit second (decided by the terms above: PRE indexes UNIT_PREFIXES, BASE indexes UNIT_STANDARD)
    pre_ok = all(norm(ret.args[2]) == (split + "[1]") for q, ret in seen.get("prefixed", [])) and bool(seen.get("prefixed"))
    ctx.form(pre_ok, BU, "get_unit_base", "prefixed id is split into (prefix, unit) in that order",
             detail=[norm(ret.args[2]) for q, ret in seen.get("prefixed", [])])
    # expression text: prefix+unit, followed by the exponent unless it is 1
    ok = bool(seen)
    shapes = []
    for name, lst in seen.items():
        for q, ret in lst:
            one = None
            for t in q.tests():
                if norm(t.resolved) == f"{ex}.num == 1 and {ex}.den == 1":
                    one = t.extra
            txt = ret.args[3]
            parts = [norm(v.value) if isinstance(v, ast.FormattedValue) else repr(v.value) for v in txt.values] if isinstance(txt, ast.JoinedStr) else None
            pre = {"system": "''", "plain": "''", "prefixed": split + "[0]"}[name]
            base = {"system": uid, "plain": uid, "prefixed": split + "[1]"}[name]
            wantp = [pre, base] + ([ex] if one is False else [])
            if parts is not None:
                parts = [x for x in parts if x not in ("''", repr(""))]
                wantp = [x for x in wantp if x != "''"]
            shapes.append((name, one, parts))
            ok = ok and one is not None and parts == wantp
    ctx.form(ok, BU, "get_unit_base", "rendered text is prefix+unit, followed by the exponent unless it is 1", detail=shapes[:3])


def _replace_exp(node, Esrc):
    from ..normalise import clone

    class T(ast.NodeTransformer):
        def visit_Call(self, n):
            if norm(n) == Esrc:
                return ast.Name(id="EXP", ctx=ast.Load())
            return self.generic_visit(n)
    return T().visit(clone(node))


def r5_accumulation(ctx):
    from . import C06 as _C06
    _C06.r4_folding(ctx)      # a dimensionless expression folds the factors of exactly the dropped units into the number (shared with C06.R4)
    fn = ctx.fn(BU, "BaseUnits.__init__")
    loops = [s for s in fn.body if isinstance(s, ast.For)]
    if len(loops) != 1:
        ctx.unrecognised(BU, "BaseUnits.__init__", "accumulation loop", f"{len(loops)} top-level loops")
        return
    lp = loops[0]
    pre = [norm(s) for s in fn.body[: fn.body.index(lp)]]
    for init in ("self.magnitude = 1", "self.dimensions = Dimensions()", "self.units = []", "self.expression = []"):
        ctx.form(init in pre, BU, "BaseUnits.__init__", f"accumulator starts neutral: {init}")
    body = [norm(s) for s in lp.body]
    acc = ["self.magnitude *= ubase.magnitude", "self.dimensions += ubase.dimensions", "self.units.append(ubase.units)",
           "self.expression.append(ubase.expression)"]
    for tgt, op, val in (("self.magnitude", ast.Mult, "ubase.magnitude"), ("self.dimensions", ast.Add, "ubase.dimensions")):
        au = [x for x in lp.body if isinstance(x, ast.AugAssign) and norm(x.target) == tgt]
        if len(au) != 1:
            ctx.unrecognised(BU, "BaseUnits.__init__", f"accumulation of {tgt}", "no single augmented assignment in the loop")
        else:
            ctx.check(isinstance(au[0].op, op) and norm(au[0].value) == val, BU, "BaseUnits.__init__", f"accumulates {tgt}",
                      detail=norm(au[0]), expected=f"{tgt} {OPSYM[op]}= {val}")
    for a in acc[2:]:
        ctx.form(a in body, BU, "BaseUnits.__init__", f"collects: {a}")
    ctx.form("ubase = get_unit_base(unitid, self.baseunits[unitid])" in body, BU, "BaseUnits.__init__",
              "each unit contributes get_unit_base(id, its exponent)")
    # zero exponents are dropped before they contribute
    z = [s for s in lp.body if isinstance(s, ast.If) and norm(s.test) in ("self.baseunits[unitid].num == 0",)]
    ok = len(z) == 1 and [norm(x) for x in z[0].body] == ["del self.baseunits[unitid]", "continue"] and \
        lp.body.index(z[0]) < min(i for i, s in enumerate(lp.body) if norm(s) in acc)
    ctx.form(ok, BU, "BaseUnits.__init__", "zero exponents are removed and contribute nothing")
    post = [norm(s) for s in fn.body[fn.body.index(lp) + 1:]]
    ctx.form(any("SYMBOL_MULTIPLY.join(self.expression)" in s for s in post), BU, "BaseUnits.__init__",
              "unit texts are joined with the multiplication symbol")
    ctx.form(norm(lp.iter) == "list(self.baseunits.keys())", BU, "BaseUnits.__init__", "iterates over a snapshot of the keys (entries are deleted inside)")


# ---------------------------------------------------------------- R6
class FracHandler(SymHandler):
    """Tracks Fraction objects as (num, den) pairs bound to names."""

    def __init__(self, kind, env):
        def decide(node, h):
            s = norm(node)
            if s == "isinstance(other, Fraction)":
                return self.kind == "Fraction"
            if s == "isinstance(other, tuple)":
                return self.kind == "tuple"
            if s == "isinstance(other, int)":
                return self.kind == "int"
            if s == "float(other).is_integer()":
                return self.kind in ("int", "intfloat")
            if s == "isinstance(other, (int, float))":
                return self.kind in ("int", "intfloat", "float")
            return None
        super().__init__(decide, env)
        self.kind = kind
        self.result = None

    def _ctor(self, call):
        f = dotted_name(call.func)
        if f == "Fraction" and 1 <= len(call.args) <= 2:
            n = self.value(call.args[0])
            d = self.value(call.args[1]) if len(call.args) == 2 else Term.const(1)
            return n, d
        if f == "Fraction.from_tuple" and len(call.args) == 1:
            a = norm(call.args[0])
            return self.value(ast.parse(f"{a}[0]", mode="eval").body), self.value(ast.parse(f"{a}[1]", mode="eval").body)
        if f == "Fraction.from_fraction" and len(call.args) == 1:
            a = norm(call.args[0])
            return self.value(ast.parse(f"{a}.num", mode="eval").body), self.value(ast.parse(f"{a}.den", mode="eval").body)
        return None

    def stmt(self, node):
        if isinstance(node, ast.Assign) and len(node.targets) == 1 and isinstance(node.targets[0], ast.Name) \
                and isinstance(node.value, ast.Call):
            c = self._ctor(node.value)
            if c is not None:
                t = node.targets[0].id
                self.env[f"{t}.num"], self.env[f"{t}.den"] = c
                return
        if isinstance(node, ast.Return) and isinstance(node.value, ast.Call):
            c = self._ctor(node.value)
            if c is not None:
                self.returned = True
                self.result = c
                return
        super().stmt(node)


def _frac_cell(ctx, mname, kind):
    fn = ctx.fn(FR, f"Fraction.{mname}")
    env = {"self.num": Term.sym("sn"), "self.den": Term.sym("sd")}
    if kind == "Fraction":
        env.update({"other.num": Term.sym("on"), "other.den": Term.sym("od")})
    elif kind == "tuple":
        env.update({"other[0]": Term.sym("o0"), "other[1]": Term.sym("o1")})
    else:
        env["other"] = Term.sym("k")
    h = FracHandler(kind, env)
    from ..predtable import run_block
    run_block(fn.body, h)
    return h


def _float_ratio(ctx):
    """A non-integral float exponent stands for the small rational it was written as (0.5 = 1/2, 1/3 = 0.333...): the
    helper that turns it into (numerator, denominator) approximates with a bounded denominator.  The exact binary
    expansion (float.as_integer_ratio, Fraction(float) alone) gives 6004799503160661/18014398509481984 for 1/3."""
    fr = "src/scinumtools/units/fraction.py"
    if not ctx.repo.has_func(fr, "Fraction._ratio"):
        ctx.form(False, fr, "Fraction._ratio", "the float-to-ratio helper is found")
        return
    fn = ctx.fn(fr, "Fraction._ratio")
    calls = [norm(c.func) for c in ast.walk(fn) if isinstance(c, ast.Call)]
    bounded = any(c.endswith(".limit_denominator") for c in calls)
    exact = any(c.endswith(".as_integer_ratio") for c in calls)
    what = "a float factor becomes the nearest ratio of small integers (bounded denominator)"
    if bounded:
        ctx.holds(fr, "Fraction._ratio", what)
    elif exact:
        ctx.violated(fr, "Fraction._ratio", what, detail=[c for c in calls if "ratio" in c], expected="fractions.Fraction(x).limit_denominator(N)")
    else:
        ctx.form(False, fr, "Fraction._ratio", what, detail=calls)


def r6_fraction(ctx):
    _float_ratio(ctx)
    sn, sd, on, od, o0, o1, k = (Term.sym(x) for x in ("sn", "sd", "on", "od", "o0", "o1", "k"))
    r0, r1 = Term.sym("<Fraction._ratio(other)>[0]"), Term.sym("<Fraction._ratio(other)>[1]")
    from .. import symexpr as _sx
    _sx.EXPECTED_OPAQUE.update({"<Fraction._ratio(other)>[0]", "<Fraction._ratio(other)>[1]"})
    one = Term.const(1)
    exp = {
        "__add__": {"Fraction": (sn * od + on * sd, sd * od), "tuple": (sn * o1 + o0 * sd, sd * o1), "int": (sn + k * sd, sd)},
        "__sub__": {"Fraction": (sn * od - on * sd, sd * od), "tuple": (sn * o1 - o0 * sd, sd * o1), "int": (sn - k * sd, sd)},
        "__mul__": {"Fraction": (sn * on, sd * od), "tuple": (sn * o0, sd * o1), "int": (sn * k, sd), "intfloat": (sn * k, sd),
                    "float": (sn * r0, sd * r1)},
        "__truediv__": {"Fraction": (sn * od, sd * on), "tuple": (sn * o1, sd * o0), "int": (sn, sd * k), "intfloat": (sn, sd * k),
                        "float": (sn * r1, sd * r0)},
    }
    n = 0
    for m, cells in exp.items():
        for kind, (wn, wd) in cells.items():
            cell = f"operand kind {kind}"
            try:
                h = _frac_cell(ctx, m, kind)
            except (Unrecognised, NotSymbolic) as e:
                ctx.unrecognised(FR, f"Fraction.{m}", cell, str(e))
                continue
            if h.result is None:
                ctx.unrecognised(FR, f"Fraction.{m}", cell, "no Fraction(...) result on this path")
                continue
            gn, gd = h.result
            n += 1
            ok = gn is not NONE and gd is not NONE and (gn * wd).equals(wn * gd)
            ctx.check(ok, FR, f"Fraction.{m}", f"value as (num, den): {cell}", detail=[gn.key(), gd.key()], expected=[wn.key(), wd.key()])
            if kind == "float":
                raw = "k" in (gn.atoms() | gd.atoms())
                ctx.check(not raw, FR, f"Fraction.{m}", "a possibly non-integral factor does not reach the truncating constructor",
                          detail=[gn.key(), gd.key()], expected="rationalised factor (int() in Fraction.__init__ would truncate)")
    ctx.floor("fraction arithmetic cells", n, 14)
    # negation, equality, constructor, readers
    try:
        h = _frac_cell(ctx, "__neg__", "Fraction")
        if h.result is None:
            raise Unrecognised("no Fraction(...) result")
        gn, gd = h.result
        ctx.check((gn * sd).equals(-sn * gd), FR, "Fraction.__neg__", "value is -num/den", detail=[gn.key(), gd.key()], expected=["-sn", "sd"])
    except (Unrecognised, NotSymbolic, IndexError) as e:
        ctx.unrecognised(FR, "Fraction.__neg__", "value", str(e))
    fn = ctx.fn(FR, "Fraction.__eq__")
    b = K.body_nodoc(fn)
    ok = False
    det = None
    if len(b) == 1 and isinstance(b[0], ast.Return) and isinstance(b[0].value, ast.Call) and dotted_name(b[0].value.func) in ("isclose", "math.isclose") \
            and len(b[0].value.args) == 2:
        ev = SymEval({"self.num": sn, "self.den": sd, "other.num": on, "other.den": od})
        a, c = ev.ev(b[0].value.args[0]), ev.ev(b[0].value.args[1])
        det = [a.key(), c.key()]
        ok = (a.equals(sn * od) and c.equals(on * sd)) or (a.equals(on * sd) and c.equals(sn * od))
    ctx.check(ok, FR, "Fraction.__eq__", "equality by cross-multiplication of (num, den)", detail=det, expected=[(sn * od).key(), (on * sd).key()])
    fn = ctx.fn(FR, "Fraction.__init__")
    b = [norm(s) for s in K.body_nodoc(fn)]
    ctx.form(b == ["self.num = int(num)", "self.den = int(den)"], FR, "Fraction.__init__", "stores (num, den) in that order", detail=b)
    fn = ctx.fn(FR, "Fraction.from_string")
    s = norm(fn)
    ctx.form("num, den = value.split(SYMBOL_FRACTION)" in s and "return Fraction(int(num), int(den))" in s and "return Fraction(int(value), 1)" in s,
              FR, "Fraction.from_string", "reads num<SYMBOL_FRACTION>den or a whole number")
    fn = ctx.fn(FR, "Fraction.from_tuple")
    b = K.body_nodoc(fn)
    if len(b) == 1 and isinstance(b[0], ast.Return) and isinstance(b[0].value, ast.Call) and dotted_name(b[0].value.func) == "Fraction" \
            and len(b[0].value.args) == 2 and all(isinstance(a, ast.Subscript) and isinstance(a.slice, ast.Constant) for a in b[0].value.args):
        idx = [a.slice.value for a in b[0].value.args]
        ctx.check(idx == [0, 1], FR, "Fraction.from_tuple", "(num, den) = (tuple[0], tuple[1])", detail=idx, expected=[0, 1])
    else:
        ctx.unrecognised(FR, "Fraction.from_tuple", "order", "not `return Fraction(value[i], value[j])`")
    # normal form: sign on the numerator, gcd removed
    _rebase_signs(ctx)
    fn = ctx.fn(FR, "Fraction.value")
    s = norm(fn)
    ctx.form("return self.num / self.den" in s and "return (self.num, self.den)" in s, FR, "Fraction.value", "value forms are num/den and (num, den)")


def _rebase_signs(ctx):
    """Fraction.rebase as a decision table over the signs of (num, den): the statements are interpreted on the
    sign domain {-,0,+}; afterwards the denominator is positive and the sign of the value is unchanged."""
    fn = ctx.fn(FR, "Fraction.rebase")
    mod = ctx.repo.module(FR)
    reducers = []

    def val(e, st):
        if isinstance(e, ast.Constant) and isinstance(e.value, (int, float)):
            return "0" if e.value == 0 else ("+" if e.value > 0 else "-")
        if isinstance(e, ast.UnaryOp) and isinstance(e.op, ast.USub):
            v = val(e.operand, st)
            return {"+": "-", "-": "+", "0": "0"}[v]
        d = dotted_name(e)
        if d in st:
            return st[d]
        raise Unrecognised(f"value {norm(e)}")

    def cmp(op, a, b):
        order = {"-": -1, "0": 0, "+": 1}
        if b != "0" and a == b:
            raise Unrecognised("comparison of two non-zero values of equal sign")
        x, y = order[a], order[b]
        return {ast.Lt: x < y, ast.LtE: x <= y, ast.Gt: x > y, ast.GtE: x >= y, ast.Eq: x == y, ast.NotEq: x != y}[op]

    def truth(t, st):
        if isinstance(t, ast.BoolOp):
            vs = [truth(v, st) for v in t.values]
            return all(vs) if isinstance(t.op, ast.And) else any(vs)
        if isinstance(t, ast.UnaryOp) and isinstance(t.op, ast.Not):
            return not truth(t.operand, st)
        if isinstance(t, ast.Compare) and len(t.ops) == 1:
            if isinstance(t.ops[0], (ast.In, ast.NotIn)) and isinstance(t.comparators[0], (ast.List, ast.Tuple, ast.Set)):
                r = any(cmp(ast.Eq, val(t.left, st), val(c, st)) for c in t.comparators[0].elts)
                return r if isinstance(t.ops[0], ast.In) else not r
            if type(t.ops[0]) in (ast.Lt, ast.LtE, ast.Gt, ast.GtE, ast.Eq, ast.NotEq):
                return cmp(type(t.ops[0]), val(t.left, st), val(t.comparators[0], st))
        raise Unrecognised(f"test {norm(t)}")

    def run(stmts, st):
        for s_ in stmts:
            if isinstance(s_, (ast.FunctionDef, ast.Pass)) or (isinstance(s_, ast.Expr) and isinstance(s_.value, ast.Constant)):
                continue
            if isinstance(s_, ast.If):
                run(s_.body if truth(s_.test, st) else s_.orelse, st)
            elif isinstance(s_, ast.Assign) and len(s_.targets) == 1 and dotted_name(s_.targets[0]) in st:
                st[dotted_name(s_.targets[0])] = val(s_.value, st)
            elif isinstance(s_, ast.Assign) and len(s_.targets) == 1 and isinstance(s_.targets[0], ast.Tuple) \
                    and [dotted_name(e) for e in s_.targets[0].elts] == ["self.num", "self.den"]:
                v = s_.value
                if isinstance(v, ast.Tuple) and len(v.elts) == 2:
                    a, b = val(v.elts[0], st), val(v.elts[1], st)
                    st["self.num"], st["self.den"] = a, b
                elif isinstance(v, ast.Call) and [dotted_name(a) for a in v.args] == ["self.num", "self.den"]:
                    reducers.append(v)      # sign-preserving if it is the gcd reduction (checked below)
                else:
                    raise Unrecognised(f"statement {norm(s_)}")
            else:
                raise Unrecognised(f"statement {norm(s_)}")

    rows, bad = [], []
    try:
        for n0 in "-0+":
            for d0 in "-+":
                st = {"self.num": n0, "self.den": d0}
                run(fn.body, st)
                want_n = "0" if n0 == "0" else ("+" if n0 == d0 else "-")
                rows.append(f"({n0},{d0})->({st['self.num']},{st['self.den']})")
                if st["self.den"] != "+" or st["self.num"] != want_n:
                    bad.append(rows[-1])
    except Unrecognised as e:
        ctx.unrecognised(FR, "Fraction.rebase", "a negative denominator is normalised by negating both parts", str(e))
    else:
        ctx.check(not bad, FR, "Fraction.rebase", "a negative denominator is normalised by negating both parts", detail=bad or rows,
                  expected="denominator positive afterwards, sign of num/den unchanged, for all six sign cases")
    # the reduction divides both parts by their gcd
    ok = False
    for c in reducers[:1]:
        name = dotted_name(c.func)
        cal = next((x for x in ast.walk(fn) if isinstance(x, ast.FunctionDef) and x.name == name and x is not fn), None) or mod.functions.get(name or "")
        if cal is not None and len(cal.args.args) == 2:
            a, b = (x.arg for x in cal.args.args)
            src = norm(cal)
            ok = any(f"gcd({a}, {b})" in src for _ in [0]) and f"int({a} / gcd)" in src and f"int({b} / gcd)" in src and f"return (int({a}), int({b}))" in src
    ctx.form(ok, FR, "Fraction.rebase", "common divisors are removed", detail=[norm(c)[:80] for c in reducers[:1]])


# ---------------------------------------------------------------- R7
def r7_render_read(ctx):
    mult = module_const(ctx.repo, "SYMBOL_MULTIPLY")
    frac = module_const(ctx.repo, "SYMBOL_FRACTION")
    cfg = [c for c in all_configs(ctx.repo) if c.relpath == US]
    if len(cfg) != 1:
        raise AnalysisError("unit solver configuration not found")
    syms = {k: cfg[0].symbol(ctx.repo, v) for k, v in cfg[0].operators.items()}
    ctx.check(syms.get("mul") == mult, US, "UnitSolver", "the joining symbol of rendered units is the solver's multiplication symbol",
              detail={"SYMBOL_MULTIPLY": mult, "operators": syms})
    ctx.check(set(syms) >= {"par", "mul", "truediv"} and syms.get("truediv") == "/" and syms.get("par") == "(", US, "UnitSolver",
              "unit expressions support products, quotients and parentheses", detail=syms)
    fn = ctx.fn(US, "AtomParser")
    pat = None
    for n in ast.walk(fn):
        if isinstance(n, ast.Call) and dotted_name(n.func) == "re.search":
            pat = Evaluator(ctx.repo, ctx.repo.module(US)).ev(n.args[0])
    m = _re.match(r"^\[([^\]]+)\]\+\$$", pat or "")
    if not m:
        ctx.unrecognised(US, "AtomParser", "exponent character class accepts digits, '-' and the fraction symbol the renderer emits", f"exponent pattern not found / not a character class: {pat!r}")
    else:
        ok = set("0123456789") <= _expand_class(m.group(1)) and frac in _expand_class(m.group(1)) and "-" in _expand_class(m.group(1))
        ctx.check(ok, US, "AtomParser", "exponent character class accepts digits, '-' and the fraction symbol the renderer emits",
                  detail=pat, expected=f"[0-9{frac}+-]+$")
    fn = ctx.fn(FR, "Fraction.__str__")
    s = norm(fn)
    ctx.form("return f'{self.num}{SYMBOL_FRACTION}{self.den}'" in s and "return str(self.num)" in s, FR, "Fraction.__str__",
              "exponent is rendered as num or num<SYMBOL_FRACTION>den")
    sid = module_const(ctx.repo, "SYMBOL_UNITID")
    ssys = module_const(ctx.repo, "SYMBOL_SYSTEM_UNIT")
    cols, rows = unit_standard(ctx.repo)
    pc, prows = unit_prefixes(ctx.repo)
    clash = [u for u in list(rows) + list(prows) if sid in u or mult in u or u.startswith(ssys) or any(ch in u for ch in "()/ ")]
    ctx.check(not clash, SETTINGS, "UNIT_STANDARD", "no table symbol contains a structural character of unit expressions", detail=clash or None)
    digit_end = [u for u in rows if u[-1].isdigit() or u[-1] in "+-" + frac]
    ctx.check(not digit_end, SETTINGS, "UNIT_STANDARD", "no unit symbol ends with an exponent character", detail=digit_end or None)


def _expand_class(body):
    out = set()
    i = 0
    while i < len(body):
        if i + 2 < len(body) and body[i + 1] == "-" and body[i + 2] != "]":
            for c in range(ord(body[i]), ord(body[i + 2]) + 1):
                out.add(chr(c))
            i += 3
        else:
            out.add(body[i])
            i += 1
    return out


# ---------------------------------------------------------------- R8
def r8_tables(ctx):
    K.published_tables_agree(ctx)
    K.duplicate_dict_keys(ctx, ['src/scinumtools/units/settings.py', 'src/scinumtools/units/unit_list.py', 'src/scinumtools/units/unit_types.py'], 'unit, prefix and conversion tables')
    cols, rows = unit_standard(ctx.repo)
    pc, prows = unit_prefixes(ctx.repo)
    dims = module_const(ctx.repo, "DIMENSION_LIST")
    ctx.floor("unit rows", len(rows), 150)
    ctx.floor("prefix rows", len(prows), 20)
    bad = []
    for u, r in rows.items():
        if len(r) != len(cols):
            bad.append((u, "arity"))
            continue
        d = dict(zip(cols, r))
        if not (isinstance(d["dimensions"], list) and len(d["dimensions"]) == len(dims)):
            bad.append((u, "dimension vector length"))
        p = d["prefixes"]
        if not (p is True or p is False or (isinstance(p, list) and all(x in prows for x in p))):
            bad.append((u, f"prefixes {p!r}"))
        if not isinstance(d["magnitude"], (int, float)) or isinstance(d["magnitude"], bool) or not d["magnitude"] > 0:
            bad.append((u, f"magnitude {d['magnitude']!r}"))
    for pfx, r in prows.items():
        if not (len(r) >= 2 and isinstance(r[0], (int, float)) and r[0] > 0 and all(x == 0 for x in r[1])):
            bad.append((pfx, "prefix row"))
    ctx.check(not bad, SETTINGS, "UNIT_STANDARD", "rows are well-formed (arity, 8 dimensions, admissible prefixes, positive factor)",
              detail=bad[:8] or None)
    # SI prefixes (BIPM brochure, the `published prefix table`): a row named after an SI prefix carries that prefix's power of ten,
    # in its factor and in its definition text
    SI = {"quetta": 30, "ronna": 27, "yotta": 24, "zetta": 21, "exa": 18, "peta": 15, "tera": 12, "giga": 9, "mega": 6, "kilo": 3, "hecto": 2,
          "deka": 1, "deca": 1, "deci": -1, "centi": -2, "milli": -3, "micro": -6, "nano": -9, "pico": -12, "femto": -15, "atto": -18, "zepto": -21,
          "yocto": -24, "ronto": -27, "quecto": -30}
    ni, nsi = (pc.index("name") if "name" in pc else None), 0
    for pfx, r in prows.items():
        if ni is None or len(r) <= ni or r[ni] not in SI or not isinstance(r[0], (int, float)):
            continue
        nsi += 1
        want = 10.0 ** SI[r[ni]]
        what = "an SI prefix carries its power of ten"
        if abs(r[0] - want) <= 1e-12 * want:
            ctx.holds(SETTINGS, "UNIT_PREFIXES", what, detail=f"{pfx} ({r[ni]}) = 1e{SI[r[ni]]}")
        else:
            ctx.violated(SETTINGS, "UNIT_PREFIXES", what, detail={pfx: {"name": r[ni], "factor": r[0]}}, expected=f"1e{SI[r[ni]]}")
    ctx.floor("SI prefix rows", nsi, 20)
    # all admissible spellings
    spellings = {}
    pi = cols.index("prefixes")
    for u, r in rows.items():
        spellings.setdefault(u, []).append(("", u))
        p = r[pi]
        plist = list(prows) if p is True else (p if isinstance(p, list) else [])
        for pf in plist:
            spellings.setdefault(pf + u, []).append((pf, u))
    dup = {s: v for s, v in spellings.items() if len(v) > 1}
    ctx.check(not dup, SETTINGS, "UNIT_STANDARD", "no two (prefix, unit) pairs spell the same symbol", detail=dict(list(dup.items())[:6]) or None)
    # longest-suffix rule: for every admissible prefix+unit the longest table symbol that is a suffix is the unit
    shadow = []
    symbols = sorted(rows, key=len, reverse=True)
    n = 0
    for s, v in spellings.items():
        (pf, u) = v[0]
        n += 1
        longest = next(x for x in symbols if s.endswith(x))
        if longest != u:
            shadow.append((s, f"meant {pf}+{u}", f"parsed with unit {longest}"))
    ctx.info["spellings_checked"] = n
    ctx.check(not shadow, SETTINGS, "UNIT_STANDARD", "longest-suffix parsing recovers the intended (prefix, unit) for every admissible spelling",
              detail=shadow[:8] or None)
    # generated quantity-unit rows
    try:
        mod = ctx.repo.module(UL)
        q = Evaluator(ctx.repo, mod).ev(mod.assigns["QUANTITY_UNITS"])
        badq = [k for k, v in q.items() if not (len(v) == 2 and isinstance(v[1], list) and len(v[1]) == len(dims) and k.startswith("#"))]
        ctx.check(not badq, UL, "QUANTITY_UNITS", "system-unit rows are (factor, 8 dimensions) keyed by #symbol", detail=badq[:5] or None)
        ctx.floor("system unit rows", len(q), 100)
    except (AnalysisError, KeyError) as e:
        ctx.unrecognised(UL, "QUANTITY_UNITS", "table", str(e))
    types = module_const(ctx.repo, "UNIT_TYPES")
    di = cols.index("definition")
    unk = [u for u, r in rows.items() if isinstance(r[di], ClassRef) and r[di] not in types]
    ctx.check(not unk, SETTINGS, "UNIT_STANDARD", "conversion classes named by rows are registered in UNIT_TYPES", detail=unk or None)


# ---------------------------------------------------------------- R9
def _dim_loop(fn):
    for lp in [n for n in fn.body if isinstance(n, ast.For)]:
        if norm(lp.iter) == "DIMENSION_LIST":
            return lp
    return None


def _component_assign(lp_body):
    """`dimensions[name] = getattr(self, name) <op> <arg>` -> (op, arg) or None"""
    if len(lp_body) == 1 and isinstance(lp_body[0], ast.Assign) and norm(lp_body[0].targets[0]) == "dimensions[name]" \
            and isinstance(lp_body[0].value, ast.BinOp) and norm(lp_body[0].value.left) == "getattr(self, name)" \
            and type(lp_body[0].value.op) in OPSYM:
        return OPSYM[type(lp_body[0].value.op)], norm(lp_body[0].value.right)
    return None


def _component_comp(fn):
    """the comprehension spelling of the component loop: `{name: getattr(self, name) <op> <arg> for name in DIMENSION_LIST}`
    handed to Dimensions(**...) directly or through one local -> (op, arg) or None"""
    body = K.body_nodoc(fn)
    comps = [c for c in ast.walk(fn) if isinstance(c, ast.DictComp) and len(c.generators) == 1 and norm(c.generators[0].iter) == "DIMENSION_LIST"
             and not c.generators[0].ifs and isinstance(c.generators[0].target, ast.Name)]
    if len(comps) != 1 or not body or not isinstance(body[-1], ast.Return):
        return None
    c = comps[0]
    v = c.generators[0].target.id
    ret = norm(body[-1].value)
    direct = ret == f"Dimensions(**{norm(c)})"
    via = [a for a in body if isinstance(a, ast.Assign) and a.value is c and isinstance(a.targets[0], ast.Name)]
    if not direct and not (len(via) == 1 and ret == f"Dimensions(**{via[0].targets[0].id})"):
        return None
    if norm(c.key) == v and isinstance(c.value, ast.BinOp) and norm(c.value.left) == f"getattr(self, {v})" and type(c.value.op) in OPSYM:
        return OPSYM[type(c.value.op)], norm(c.value.right)
    return None


def r9_dimensions(ctx):
    G = "getattr(self, name)"
    for m, op in (("__add__", "+"), ("__sub__", "-")):
        fn = ctx.fn(DM, f"Dimensions.{m}")
        lp = _dim_loop(fn)
        cells = None
        if lp is not None and len(lp.body) == 1 and isinstance(lp.body[0], ast.If) and norm(lp.body[0].test) == "isinstance(other, Dimensions)":
            cells = (_component_assign(lp.body[0].body), _component_assign(lp.body[0].orelse))
        if not cells or None in cells or norm(fn.body[-1]) != "return Dimensions(**dimensions)":
            ctx.unrecognised(DM, f"Dimensions.{m}", "component loop", "loop over DIMENSION_LIST with the two operand kinds not recognised")
            continue
        ctx.check(cells == ((op, "getattr(other, name)"), (op, "other")), DM, f"Dimensions.{m}", f"component-wise {op} over every dimension",
                  detail=cells, expected=((op, "getattr(other, name)"), (op, "other")))
    for m, op, arg in (("__mul__", "*", "other"), ("__truediv__", "/", "other"), ("__neg__", "*", "-1")):
        fn = ctx.fn(DM, f"Dimensions.{m}")
        lp = _dim_loop(fn)
        c = _component_assign(lp.body) if lp is not None else None
        if c is None or norm(K.body_nodoc(fn)[-1]) != "return Dimensions(**dimensions)":
            c = _component_comp(fn)
            if c is not None:
                ctx.check(c == (op, arg), DM, f"Dimensions.{m}", f"every component {op} {arg}", detail=c, expected=(op, arg))
                continue
            ctx.unrecognised(DM, f"Dimensions.{m}", "component loop", "loop over DIMENSION_LIST not recognised")
            continue
        ctx.check(c == (op, arg), DM, f"Dimensions.{m}", f"every component {op} {arg}", detail=c, expected=(op, arg))
    # equality: every component, compared as fractions
    fn = ctx.fn(DM, "Dimensions.__eq__")
    lp = _dim_loop(fn)
    src = norm(fn)
    loop_form = lp is not None and len(lp.body) == 1 and isinstance(lp.body[0], ast.If) and \
        norm(lp.body[0].test) in (f"not {G} == getattr(other, name)", f"{G} != getattr(other, name)") and \
        [norm(s) for s in lp.body[0].body] == ["return False"] and norm(fn.body[-1]) == "return True"
    all_form = f"all(({G} == getattr(other, name) for name in DIMENSION_LIST))" in src
    if loop_form or all_form:
        ctx.holds(DM, "Dimensions.__eq__", "two vectors are equal iff every component fraction is equal (by value)")
    elif ".value(" in src and "==" in src:
        ctx.violated(DM, "Dimensions.__eq__", "two vectors are equal iff every component fraction is equal (by value)",
                     detail="compares derived representations (value(...)) instead of the component fractions",
                     expected="equal fractions have different representations when unreduced (6/2 -> (3,1) vs 3): compare with Fraction.__eq__")
    else:
        ctx.unrecognised(DM, "Dimensions.__eq__", "equality", "component-wise comparison idiom not recognised")
    fn = ctx.fn(DM, "Dimensions.from_list")
    s = norm(fn)
    ok = "for n, name in enumerate(DIMENSION_LIST)" in s and "units[name] = Fraction.from_tuple(value[n])" in s and \
        "units[name] = Fraction(value[n])" in s and "return Dimensions(**units)" in s
    ctx.form(ok, DM, "Dimensions.from_list", "position n of the list is the exponent of dimension name n")
    fn = ctx.fn(DM, "Dimensions.__post_init__")
    s = norm(fn)
    ctx.form("for name in DIMENSION_LIST" in s and "getattr(self, name).num != 0" in s and "self.nodim = False" in s, DM,
             "Dimensions.__post_init__", "nodim is false as soon as one exponent is non-zero")
    dims = module_const(ctx.repo, "DIMENSION_LIST")
    c = ctx.repo.cls(DM, "Dimensions")
    fields = [st.target.id for st in c.body if isinstance(st, ast.AnnAssign) and isinstance(st.target, ast.Name)]
    ctx.check(fields[: len(dims)] == list(dims), DM, "Dimensions", "fields are the dimensions of DIMENSION_LIST in order", detail=fields)


def r10_solver_state(ctx):
    from . import C01 as _C01b
    _C01b.r8_parenthesis(ctx)       # a parenthesised group takes exactly its declared number of arguments: `kg/(m,s)` is an error, not `kg/m` (shared with C01.R8)
    _C02.r1_kill_before_use(ctx)
    from . import C01 as _C01, C09 as _C09
    _C09.r6_no_derived_state(ctx)   # a memo of parsed symbols / unit bases makes a parse depend on earlier (rejected or re-registered) ones
    _C01.residue_guard(ctx)      # `m m`, `2 m` ...: symbols left over after the passes are an error, not silently dropped
    fn = ctx.fn(US, "UnitSolver")
    built = [c for c in ast.walk(fn) if isinstance(c, ast.Call) and dotted_name(c.func) == "ExpressionSolver"]
    mod = ctx.repo.module(US)
    shared = [norm(st)[:80] for st in mod.tree.body if isinstance(st, ast.Assign) and any(isinstance(c, ast.Call) and dotted_name(c.func) == "ExpressionSolver" for c in ast.walk(st))]
    ctx.check(bool(built) and not shared, US, "UnitSolver", "every unit string is parsed by its own solver instance (no module-level solver shared between calls)",
              detail=shared or [norm(c)[:60] for c in built])


def r11_tables_intact(ctx):
    """The meaning of a unit string is fixed by the tables only as long as nothing but a (successful, scoped)
    registration changes them: do/undo pairing and undo-on-failure of the one writer (shared with C09.R2/R3)."""
    from . import C09 as _C09
    _C09.r2_pairing(ctx)
    _C09.r3_undo_on_failure(ctx)


RULES = [
    ("C03.R1", "atom parser residual-text discipline: anchored number pattern; anchored exponent suffix; longest table suffix as unit; the remainder is exactly a prefix (whole-string membership) or empty, otherwise an error; no single-character truncation", r1_atom_parser),
    ("C03.R3", "exponent bookkeeping under * and /: present key => old +/- exp, absent key => +/- exp; factors * and /; siblings agree", r3_exponent_algebra),
    ("C03.R4", "per-unit factor (prefix*unit)**exp and dimensions*exp for system, prefixed and plain ids", r4_unit_base),
    ("C03.R5", "BaseUnits accumulates factors multiplicatively, dimensions additively, drops zero exponents, joins texts with the multiplication symbol; folding of cancelled units (shared with C06.R4)", r5_accumulation),
    ("C03.R6", "Fraction arithmetic as identities on (num, den) for Fraction/tuple/int/float operands; equality by cross-multiplication; normal form", r6_fraction),
    ("C03.R7", "renderer/reader agreement: multiplication symbol, exponent alphabet, fraction symbol; no table symbol contains structural characters", r7_render_read),
    ("C03.R8", "table well-formedness; unique spellings; longest-suffix parsing recovers every admissible (prefix, unit) spelling", r8_tables),
    ("C03.R9", "dimension vectors: component-wise + - * / neg over DIMENSION_LIST, equality over every component, list positions = dimension order", r9_dimensions),
    ("C03.R11", "the unit tables are changed only by a registration that records exactly what it added and removes exactly that (shared with C09.R2/R3)", r11_tables_intact),
    ("C03.R10", "a unit string is parsed independently of earlier (possibly rejected) ones: fresh solver per call and empty buffers per solve (shared with C02.R1); tokens left over after the passes are rejected (shared with C01.R8c)", r10_solver_state),
]
