"""C17 — references deliver the referenced node's current value and unit. Decided:
(R1) node queries hand out copies: the effect analysis shows that NodeList.query/__getitem__ write
to no element of the list and return no alias of one; node copies are deep; (R2) parsing never
writes the base environment: parse()/parse_docs() work on self.env.copy() (a deep copy) and contain
no store or container mutation rooted at self.env; a remote source is parsed on a copy of the
source list; (R3) count discipline: request() raises for a list-valued and for a scalar count
mismatch, injection asks for exactly one node in data mode; (R4) authoritative state: an injection
reads the referenced node's typed value (which modifications update) and falls back to the raw
text only under the negative of the type test; (R5) an import selecting nothing is not registered
as a parameter: the parse loop tests the result's type, not its truth value; (R6) re-rooting writes
only name/indent/source of the imported copy; (R7) a slice is applied once: it is consumed by the
slicing routine (or cleared by the caster), so later re-casts do not cut again. NOT decided:
slicing semantics (numpy), remote file handling. Also: cast_value() without an explicit value casts the node's current typed value, the raw text only when there is none."""
import ast

from ..effects import Program
from ..model import qualname, AnalysisError, dotted_name, methods, norm, walk_no_nested
from ..truthy import bare_truth_uses
from . import C13, C16
from . import common as K

LEVEL_TEXT = ("static analysis (ast): effect analysis of the node-list query API (no write to, no alias of, stored nodes), "
              "who-may-write scan for the base environment in the parsers, guarded-read rule for the two representations of a "
              "node's value, truthiness lint on the import result, write-set of the re-rooting code")
LEVEL_NOTE = "trusted: copy.deepcopy copies; numpy slicing; the request routing of remote sources"
TECHNIQUE = "effect (alias/mutation) analysis + who-may-write + guarded-read rules over ast (static analysis)"

DIP = C13.DIP
NB = C13.NB
ND = C13.ND
LN = "src/scinumtools/dip/lists/list_nodes.py"
ENV = "src/scinumtools/dip/environment.py"


def r1_queries_copy(ctx):
    from . import C14 as _C14
    _C14.r3_none_vs_falsy(ctx)      # a referenced value of 0, false or '' is a value: no bare truth test in the injection path (shared with C14.R3)
    prog = Program(ctx.repo, [LN, ND + "node.py"], hints={("NodeList.query", "query"): {"num"}, ("NodeList.__getitem__", "key"): {"num"}},
                   field_hints={("NodeList", "nodes"): "list<Node>"})
    prog.solve()
    for q in ("NodeList.query", "NodeList.__getitem__"):
        m, fn, cls = prog.funcs[q]
        ctx.functions_analysed.add(f"{LN}::{q}")
        res = prog.raw[q]
        bad = sorted({f"self{''.join('.' + p for p in path)}: {via} @ {where}" for (i, path, via, where, cond, origin) in res.mut if i == 0})
        ctx.check(not bad, LN, q, "a query writes to no stored node and not to the list", detail=bad or None,
                  expected="re-rooting (node.name = ...) is applied to copies only")
        s = prog.summ[q]
        ali = sorted({f"self{''.join('.' + p for p in path)}" for (i, path, cond) in s.ret_alias if i == 0 and path[:1] == ("nodes",)} |
                     {f"result.{fp} -> self{''.join('.' + p for p in path)}" for (fp, i, path, cond, vt) in s.ret_fields if i == 0 and path[:1] == ("nodes",)})
        if q == "NodeList.__getitem__":
            # integer indexing deliberately returns the stored node (internal positional access); string keys must copy
            ali = [a for a in ali if a != "self.nodes.*"] if _int_branch_returns_element(fn) else ali
        ctx.check(not ali, LN, q, "a query returns copies, never the stored nodes themselves", detail=ali or None)
    C16.r9_deep_copies(ctx)
    fn = ctx.fn(LN, "NodeList.query")
    c = ctx.repo.cls(LN, "NodeList")
    called = {x.func.attr for x in ast.walk(fn) if isinstance(x, ast.Call) and isinstance(x.func, ast.Attribute) and norm(x.func.value) in ("self", "NodeList")}
    n_branches = norm(fn).count(".copy()") + sum(norm(m).count(".copy()") for name, m in methods(c).items() if name in called and m is not fn)
    ctx.floor("copy sites reachable from NodeList.query", n_branches, 1, file=LN)


def _int_branch_returns_element(fn):
    for i in ast.walk(fn):
        if isinstance(i, ast.If) and norm(i.test) == "isinstance(key, int)" and [norm(x) for x in i.body] == ["return self.nodes[key]"]:
            return True
    return False


def deep_copy_clause(ctx, rel, qual, what):
    """copy() returns copy.deepcopy(self).  Evidence of a violation: a shallow copy (copy.copy / dict(...) / list(...) /
    slicing of a field, or self itself) reaches the returned object; anything else that is not the deep copy is a form."""
    from ..flowexpr import paths
    fn = ctx.fn(rel, qual)
    rets = [norm(e.resolved) for q in paths(fn) for e in q.events if e.kind == "return" and e.resolved is not None]
    shallow = sorted({norm(c)[:60] for c in ast.walk(fn) if isinstance(c, ast.Call) and (dotted_name(c.func) in ("copy.copy", "copy") or
                                                                                          (isinstance(c.func, ast.Attribute) and c.func.attr == "__copy__"))})
    if rets and all(r == "copy.deepcopy(self)" for r in rets):
        ctx.holds(rel, qual, what)
    elif shallow or any(r == "self" for r in rets):
        ctx.violated(rel, qual, what, detail={"returns": rets[:2], "shallow copies": shallow}, expected="return copy.deepcopy(self)")
    else:
        ctx.form(False, rel, qual, what, detail=rets[:2])


def r2_base_untouched(ctx):
    for q in ("DIP.parse", "DIP.parse_docs"):
        fn = ctx.fn(DIP, q)
        tg = [a for a in ast.walk(fn) if isinstance(a, ast.Assign) and norm(a.targets[0]) == "target"]
        ctx.check(len(tg) == 1 and norm(tg[0].value) == "self.env.copy()", DIP, q, "works on a copy of the base environment", detail=[norm(a.value) for a in tg],
                  expected="target = self.env.copy()")
        bad = []
        for n in ast.walk(fn):
            tgts = n.targets if isinstance(n, ast.Assign) else ([n.target] if isinstance(n, (ast.AugAssign, ast.AnnAssign)) else (n.targets if isinstance(n, ast.Delete) else []))
            for t in tgts:
                if isinstance(t, (ast.Attribute, ast.Subscript)) and (dotted_name(t) or norm(t)).startswith("self.env"):
                    bad.append(norm(n)[:80])
            if isinstance(n, ast.Call) and isinstance(n.func, ast.Attribute) and norm(n.func.value).startswith("self.env") and \
                    n.func.attr in ("append", "prepend", "pop", "insert", "remove", "clear", "update", "extend", "register", "solve_case", "prepare_node", "close_by_indent"):
                bad.append(norm(n)[:80])
        ctx.check(not bad, DIP, q, "no store or mutation through self.env", detail=bad or None)
        others = [norm(n)[:60] for n in ast.walk(fn) if isinstance(n, ast.Attribute) and dotted_name(n) == "self.env" and
                  not (isinstance(n._parent, ast.Attribute) and n._parent.attr == "copy")]
        ctx.check(not others, DIP, q, "self.env is only copied, never handed out or read piecewise during parsing", detail=others or None)
    deep_copy_clause(ctx, ENV, "Environment.copy", "the environment copy is deep")
    sn = ctx.fn(ND + "node_source.py", "SourceNode.parse")
    ctx.form("p.env.sources = env.sources.copy()" in norm(sn), ND + "node_source.py", "SourceNode.parse", "a remote DIP source is parsed on a copy of the source list")
    sl = ctx.fn("src/scinumtools/dip/lists/list_sources.py", "SourceList.copy")
    deep_copy_clause(ctx, "src/scinumtools/dip/lists/list_sources.py", "SourceList.copy", "the source-list copy is deep")


def r3_count(ctx):
    _injection_target(ctx)
    fn = ctx.fn(ENV, "Environment.request")
    blk = [i for i in fn.body if isinstance(i, ast.If) and norm(i.test) == "count"]
    if len(blk) != 1:
        ctx.unrecognised(ENV, "Environment.request", "count check", "`if count:` block not found")
    else:
        tests = []
        cur = blk[0].body[0] if blk[0].body and isinstance(blk[0].body[0], ast.If) else None
        while cur is not None:
            tests.append((norm(cur.test), any(isinstance(r, ast.Raise) for r in cur.body)))
            cur = cur.orelse[0] if len(cur.orelse) == 1 and isinstance(cur.orelse[0], ast.If) else None
        want = [("isinstance(count, list) and len(nodes) not in count", True), ("np.isscalar(count) and len(nodes) != count", True)]
        ctx.form(tests == want, ENV, "Environment.request", "a list-valued count admits only the listed sizes, a scalar count exactly that size", detail=tests, expected=want)
        ctx.form(norm(fn.body[-1]) == "return nodes" and fn.body.index(blk[0]) == len(fn.body) - 2, ENV, "Environment.request", "the count check is the last step before returning")
    # path rule: every way out of request() that hands back the result of a query has passed the test of `count`
    from ..flowexpr import paths as _paths
    try:
        ps = _paths(fn)
    except AnalysisError as e:
        ps = None
        ctx.unrecognised(ENV, "Environment.request", "count check on every path", str(e))
    nq = 0
    for q in ps or ():
        rets = [e for e in q.events if e.kind == "return" and e.resolved is not None]
        if not rets or ".query(" not in norm(rets[-1].resolved):
            continue
        nq += 1
        counted = any(e.kind == "test" and isinstance(e.resolved, ast.AST) and any(isinstance(x, ast.Name) and x.id == "count" for x in ast.walk(e.resolved))
                      for e in q.events)
        what = "a query result is returned only after the requested number of nodes was checked"
        if counted:
            ctx.holds(ENV, "Environment.request", what, detail=norm(rets[-1].resolved)[:80])
        else:
            ctx.violated(ENV, "Environment.request", what, detail={"returns": norm(rets[-1].resolved)[:100], "under": [f"{norm(t.resolved)[:40]} is {t.extra}" for t in q.tests()][:4]},
                         expected="the path passes `if count:` (an injection that selects several nodes is rejected)")
    if ps is not None:
        ctx.floor("query-returning paths of request()", nq, 4, file=ENV)
    inj = ctx.fn(NB, "BaseNode.inject_value")
    reqs = [c for c in ast.walk(inj) if isinstance(c, ast.Call) and norm(c.func) == "env.request"]
    data = [c for c in reqs if any(k.arg == "count" and norm(k.value) == "1" for k in c.keywords)]
    docs = [c for c in reqs if any(k.arg == "count" and norm(k.value) == "[0, 1]" for k in c.keywords)]
    if not reqs:
        ctx.form(False, NB, "BaseNode.inject_value", "a value injection asks for exactly one node in data mode", detail="no env.request(...) call in inject_value itself")
    else:
        ctx.check(len(data) == 1 and len(reqs) == len(data) + len(docs), NB, "BaseNode.inject_value", "a value injection asks for exactly one node in data mode",
                  detail=[norm(c) for c in reqs])
    if data:
        st = data[0]
        while not isinstance(st, ast.stmt):
            st = st._parent
        par = st._parent
        ok = isinstance(par, ast.If) and st in par.orelse and norm(par.test) == "env.envtype == EnvType.DOCS"
        ctx.form(ok, NB, "BaseNode.inject_value", "the lenient [0,1] request is confined to documentation mode")


_IN_CONVERSION = []


def _usual_conversion(ctx):
    """`after which the usual conversion into the host's definition unit applies`: the modification pipeline of C14.R2."""
    if _IN_CONVERSION:
        return
    _IN_CONVERSION.append(1)
    try:
        from . import C14 as _C14
        _C14.r2_pipeline(ctx)
    finally:
        _IN_CONVERSION.pop()


def r4_authoritative(ctx):
    _usual_conversion(ctx)
    fn = ctx.fn(NB, "BaseNode.inject_value")
    # value-level: what is stored as the host's raw value / unit on the paths where the referenced node has a typed value
    from ..flowexpr import explore as _explore
    ex = _explore(fn, opaque_calls=True)
    rows = {True: {"value": set(), "unit": set()}, False: {"value": set(), "unit": set()}}
    unguarded = set()
    for q in ex.paths:
        if q.status == "raise":
            continue
        reqs = sorted({e.extra for e in q.events if e.kind == "call" and str(e.extra).startswith("env.request#")})
        if len(reqs) != 1:
            continue
        R = f"{reqs[0]}[0]"
        typed = None
        for t in q.tests():
            r, neg = t.resolved, False
            if isinstance(r, ast.UnaryOp) and isinstance(r.op, ast.Not):
                r, neg = r.operand, True
            if norm(r) == f"isinstance({R}.value, Type)":
                typed = t.extra != neg
        if typed is None:
            # no test of the referenced node's typed value on this path: a raw read here is unguarded
            for e in q.events:
                if e.kind == "store" and str(e.extra).endswith(".value_raw") and norm(e.resolved) == f"{R}.value_raw":
                    unguarded.add(norm(e.resolved).replace(R, "REF"))
            continue
        for e in q.events:
            if e.kind == "store" and str(e.extra).endswith(".value_raw") and R in norm(e.resolved) + " ":
                rows[typed]["value"].add(norm(e.resolved).replace(R, "REF"))
            if e.kind == "store" and str(e.extra).endswith(".units_raw") and R in norm(e.resolved) + " ":
                rows[typed]["unit"].add(norm(e.resolved).replace(R, "REF"))
    if unguarded:
        ctx.violated(NB, "BaseNode.inject_value", "the referenced node's current typed value and unit are read", detail=sorted(unguarded),
                     expected="modifications update node.value, never value_raw: read REF.value.value when the node has a typed value")
    elif not rows[True]["value"] or not rows[False]["value"]:
        ctx.unrecognised(NB, "BaseNode.inject_value", "the referenced node's current typed value and unit are read", "stores of the host's raw value not found on typed / untyped paths")
    else:
        okv = all("REF.value.value" in v and "REF.value_raw" not in v for v in rows[True]["value"])
        oku = all("REF.value.unit" in v and "REF.units_raw" not in v for v in rows[True]["unit"]) and bool(rows[True]["unit"])
        ctx.check(okv and oku, NB, "BaseNode.inject_value", "the referenced node's current typed value and unit are read",
                  detail={"value": sorted(rows[True]["value"]), "unit": sorted(rows[True]["unit"])}, expected="modifications update node.value, never value_raw")
        okr = all(v == "REF.value_raw" for v in rows[False]["value"])
        ctx.check(okr, NB, "BaseNode.inject_value", "`value_raw` (never updated by modifications) is read only when the node has no typed value",
                  detail=sorted(rows[False]["value"]))
    # cast_value(): when called without a value on a node that has a typed value, the typed value is the source
    from ..flowexpr import consistent, paths
    cv = ctx.fn(NB, "BaseNode.cast_value")
    arg = cv.args.args[1].arg if len(cv.args.args) > 1 else "value"
    try:
        cps = paths(cv, max_paths=20000)
    except AnalysisError as e:
        cps = None
        ctx.unrecognised(NB, "BaseNode.cast_value", "default value source", str(e))
    if cps is not None:
        rows, unk = {}, []
        for typed in (True, False):
            def atom(e, _t=typed):
                k = norm(e)
                t = {f"{arg} is None": True, f"{arg} is not None": False, "self.value is None": not _t, "self.value is not None": _t,
                     "self.value_raw is None": False, "self.value_raw is not None": True}.get(k)
                if t is not None:
                    return t
                if k.startswith("isinstance(self.value, "):
                    return True
                return None
            src = set()
            for q in cps:
                # only the tests up to the first binding of the argument matter
                first = next((i for i, e in enumerate(q.events) if e.kind == "assign" and e.extra == arg), None)
                if first is None:
                    continue
                from ..flowexpr import truth
                ok = True
                for e in q.events[:first]:
                    if e.kind == "test":
                        v = truth(e.resolved, atom)
                        if v is None:
                            unk.append(norm(e.resolved))
                            ok = False
                        elif v != e.extra:
                            ok = False
                if ok:
                    src.add(norm(q.events[first].resolved))
            rows[typed] = sorted(src)
        if unk and not (rows.get(True) and rows.get(False)):
            ctx.unrecognised(NB, "BaseNode.cast_value", "default value source", f"test not decided: {sorted(set(unk))[:2]}")
        else:
            ctx.check(bool(rows[True]) and all(r in ("self.value.value", "self.value") for r in rows[True]) and rows[False] == ["self.value_raw"], NB, "BaseNode.cast_value",
                      "without an explicit value the node's current typed value is cast; the raw text only when there is no typed value yet",
                      detail={"typed value present": rows[True], "no typed value": rows[False]}, expected={"typed value present": ["self.value.value"], "no typed value": ["self.value_raw"]})
    # writers of the typed value
    for q in ("BaseNode.set_value", "BaseNode.modify_value"):
        f = ctx.fn(NB, q)
        w = [norm(x) for x in ast.walk(f) if isinstance(x, ast.Assign) and norm(x.targets[0]) == "self.value"]
        calls = [norm(c) for c in ast.walk(f) if isinstance(c, ast.Call) and norm(c.func) == "self.set_value"]
        ctx.check(bool(w) or bool(calls), NB, q, "writes the typed value (the representation references read)")
    mv = ctx.fn(NB, "BaseNode.modify_value")
    wraw = [norm(x) for x in ast.walk(mv) if isinstance(x, ast.Assign) and norm(x.targets[0]) in ("self.value_raw", "self.units_raw")]
    ctx.check(not wraw, NB, "BaseNode.modify_value", "a modification does not touch the raw representation (so it cannot be authoritative)", detail=wraw or None)
    # host keeps its own unit, adopts the referenced one when it states none
    s = norm(fn).replace("\n", " ")
    ctx.form("if not node.units_raw: node.units_raw = units" in s, NB, "BaseNode.inject_value", "the host adopts the referenced unit only when it states none")


def r5_empty_import(ctx):
    # an import line that follows an unselected clause closed by de-indentation is outside that clause: it closes the
    # clause like any named node, otherwise its parse() is skipped and the import adds nothing (shared with C15.R4)
    from . import C15 as _C15
    _C15.r4_close_before_skip(ctx)
    fn = ctx.fn(DIP, "DIP.parse")
    asg = [a for a in ast.walk(fn) if isinstance(a, ast.Assign) and isinstance(a.value, ast.Call) and norm(a.value.func) == "node.parse"]
    if len(asg) != 1:
        ctx.unrecognised(DIP, "DIP.parse", "parse result", "assignment of node.parse(target) not found")
        return
    var = norm(asg[0].targets[0])
    hits = bare_truth_uses(fn, lambda s: s == var)
    ctx.check(not hits, DIP, "DIP.parse", "the list returned by an import is recognised by its type, not its truth value (an empty import adds nothing)",
              detail=[f"`{t}`" for _, t, _ in hits] or None, expected=f"isinstance({var}, list)")
    tests = [norm(i.test) for i in ast.walk(fn) if isinstance(i, ast.If) and var in norm(i.test)]
    ctx.form(f"isinstance({var}, list)" in tests, DIP, "DIP.parse", "imported nodes are queued and the import line itself is dropped", detail=tests)
    imp = ctx.fn(ND + "node_import.py", "ImportNode.parse")
    rets = [norm(r.value) for r in ast.walk(imp) if isinstance(r, ast.Return) and r.value is not None]
    ctx.form(rets == ["nodes_new"] and "nodes_new = []" in norm(imp), ND + "node_import.py", "ImportNode.parse", "an import always returns a list (possibly empty)", detail=rets)


def r6_rerooting(ctx):
    fn = ctx.fn(ND + "node_import.py", "ImportNode.parse")
    loops = [l for l in ast.walk(fn) if isinstance(l, ast.For) and norm(l.iter) == "nodes"]
    if len(loops) != 1:
        ctx.unrecognised(ND + "node_import.py", "ImportNode.parse", "re-rooting loop", "for node in nodes not found")
        return
    v = norm(loops[0].target)
    writes = sorted({t.attr for a in ast.walk(loops[0]) if isinstance(a, ast.Assign) for t in a.targets if isinstance(t, ast.Attribute) and norm(t.value) == v})
    ctx.check(set(writes) <= {"name", "indent", "isource"}, ND + "node_import.py", "ImportNode.parse",
              "re-rooting writes only name, indent and import source of the imported copy (value, type, unit, constraints untouched)", detail=writes)
    from ..flowexpr import explore
    ex = explore(fn)
    its = [v_ for v_ in ex.iterations.values() if v_[0] is loops[0]]
    names = []
    if its:
        lp, start, ips = its[0]
        tok = v + "@loop1"
        names = sorted({norm(e.resolved) for q in ips for e in q.events[start:] if e.kind == "store" and e.extra == f"{tok}.name"})
        want = f"Sign.SEPARATOR.join(self.name.split(Sign.SEPARATOR + '{{')[:-1] + [{tok}.name])"
    ctx.form(bool(names) and names == [want], ND + "node_import.py", "ImportNode.parse",
             "the directive's own path element is replaced by the imported node's relative name", detail=names)
    calls = [c for c in ast.walk(fn) if isinstance(c, ast.Call) and norm(c.func) == "env.request"]
    ctx.check(all(not any(k.arg == "count" for k in c.keywords) for c in calls), ND + "node_import.py", "ImportNode.parse",
              "an import accepts any number of selected nodes", detail=[norm(c) for c in calls])
    _relative_names(ctx)


def _injection_target(ctx):
    """`$unit name = {?ref}` / `$source name = {?ref}` parse their right-hand side with a sub-parser; the reference is
    in that sub-parser, so it is the object whose value has to be injected.  inject_value(env) alone works on the
    directive node itself, finds no reference there and returns without a word."""
    n = 0
    for mod in ctx.repo.all_modules("src/scinumtools/dip/nodes"):
        for fn in [x for x in ast.walk(mod.tree) if isinstance(x, (ast.FunctionDef, ast.AsyncFunctionDef))]:
            for i in [x for x in ast.walk(fn) if isinstance(x, ast.If)]:
                t = i.test
                if not (isinstance(t, ast.Attribute) and t.attr == "value_ref" and isinstance(t.value, ast.Name) and t.value.id != "self"):
                    continue
                holder = t.value.id
                for c in [x for st in i.body for x in ast.walk(st) if isinstance(x, ast.Call) and isinstance(x.func, ast.Attribute) and x.func.attr == "inject_value"]:
                    n += 1
                    passed = [norm(a) for a in c.args[1:]] + [norm(k.value) for k in c.keywords if k.arg == "node"]
                    what = "the object that holds the reference is the one whose value is injected"
                    if holder in passed:
                        ctx.holds(mod.relpath, qualname(fn), what)
                    elif not passed:
                        ctx.violated(mod.relpath, qualname(fn), what, detail=f"{norm(c)} under `if {holder}.value_ref`", expected=f"{norm(c.func)}(env, {holder})")
                    else:
                        ctx.form(False, mod.relpath, qualname(fn), what, detail=norm(c))
    ctx.floor("injections into a sub-parser", n, 2)


def _plain_path_selects_that_node(ctx):
    """`{?a.b}` names one node: the node whose path *is* a.b.  Decided as a table over concrete cells (query 'a.b'
    against the node names a.b, a.b.c, a.bc, x.a.b and a): on the iteration paths of NodeList.query the valuation
    allows, a node is appended exactly for the equal name.  Descendants (a.b.c) handed out as well turn an injection
    from a node that has nodes below it into an error and make an import copy more than was asked for."""
    from ..flowexpr import explore, consistent
    rel = "src/scinumtools/dip/lists/list_nodes.py"
    fn = ctx.fn(rel, "NodeList.query")
    pa = [a.arg for a in fn.args.args]
    pq = pa[1] if len(pa) > 1 else "query"
    ex = explore(fn)
    n = 0
    for name, want in (("a.b", True), ("a.b.c", False), ("a.bc", False), ("x.a.b", False), ("a", False)):
        what = f"plain path cell query='a.b' node='{name}': selected={want}"
        outcomes, unk_all = set(), []
        for lp, start, its in ex.iterations.values():
            if not isinstance(lp, ast.For):
                continue
            tv = norm(lp.target)

            def atom(e, _name=name, _tv=tv):
                val = {pq: "a.b", "Sign.SEPARATOR": ".", "Sign.WILDCARD": "*"}
                for x in ast.walk(e):
                    if isinstance(x, ast.Attribute) and x.attr == "name" and norm(x.value).split("@")[0] == _tv:
                        val[norm(x)] = _name
                return K.concrete_truth(e, val)
            ps, unk = consistent(its, atom, 0)
            unk_all += unk
            for q in ps:
                app = any(e.kind in ("expr", "call") and isinstance(e.resolved, ast.AST) and ".append(" in norm(e.resolved) for e in q.events[start:])
                outcomes.add(app)
        if not outcomes:
            ctx.unrecognised(rel, "NodeList.query", what, f"no iteration path decided by the cell: {sorted(set(unk_all))[:2]}")
            continue
        n += 1
        if outcomes == {want}:
            ctx.holds(rel, "NodeList.query", what)
        elif len(outcomes) == 1:
            ctx.violated(rel, "NodeList.query", what, detail=f"selected={outcomes.pop()}", expected=f"selected={want}")
        else:
            ctx.unrecognised(rel, "NodeList.query", what, "both outcomes on paths the cell allows")
    ctx.floor("plain path cells", n, 5)


def _relative_names(ctx):
    """`{?path.*}`: a selected descendant keeps its name relative to `path.`, i.e. the name with that *leading* prefix cut
    off once.  Removing every occurrence of the prefix text (str.replace), stripping a character set (lstrip) or keeping
    the last piece of a split changes names that contain the prefix text again further down."""
    import re as _re
    from ..flowexpr import explore
    _plain_path_selects_that_node(ctx)
    rel = "src/scinumtools/dip/lists/list_nodes.py"
    fn = ctx.fn(rel, "NodeList.query")
    ex = explore(fn)
    what = "a subtree selection cuts the leading parent path off a descendant's name, once"
    found = 0
    for lp, start, its in ex.iterations.values():
        for q in its:
            pref = None
            for t in q.tests():
                m = _re.fullmatch(r"(\w+(?:@loop\d+)?)\.name\.startswith\((.+)\)", norm(t.resolved))
                if m and t.extra:
                    pref = (m.group(1), m.group(2))
            if pref is None:
                continue
            v, P = pref
            names = [norm(e.resolved) for e in q.events if e.kind == "store" and str(e.extra).endswith(".name")]
            for nm in names:
                found += 1
                src = f"(?:{_re.escape(v)}(?:\\.copy\\(\\))?)"
                cut = (_re.fullmatch(src + r"\.name\[len\(" + _re.escape(P) + r"\):\]", nm) or _re.fullmatch(src + r"\.name\.removeprefix\(" + _re.escape(P) + r"\)", nm))
                wrong = (".name.replace(" in nm and ", 1)" not in nm) or ".name.lstrip(" in nm or (".name.split(" in nm and nm.endswith("[-1]")) or ".name.strip(" in nm
                if cut:
                    ctx.holds(rel, "NodeList.query", what)
                elif wrong:
                    ctx.violated(rel, "NodeList.query", what, detail=nm, expected=f"{v}.name[len({P}):]")
                else:
                    ctx.form(False, rel, "NodeList.query", what, detail=nm)
    ctx.form(found >= 1, rel, "NodeList.query", "the renaming of a selected descendant is found on the path where its name starts with the parent path")


def r7_slice_once(ctx):
    slice_cells(ctx)
    cv = ctx.fn(NB, "BaseNode.cast_value")
    sv = ctx.fn(NB, "BaseNode.slice_value")
    p = sv.args.args[1].arg
    consumes = any(isinstance(c, ast.Call) and isinstance(c.func, ast.Attribute) and c.func.attr == "pop" and norm(c.func.value) == p for c in ast.walk(sv))
    cleared = any(isinstance(a, ast.Assign) and norm(a.targets[0]) == "self.value_slice" for a in ast.walk(cv))
    applies = [c for c in ast.walk(cv) if isinstance(c, ast.Call) and norm(c.func) == "self.slice_value"]
    ctx.floor("slice applications in cast_value", len(applies), 1, file=NB)
    passes_own = any(norm(c.args[0]) == "self.value_slice" for c in applies if c.args)
    ctx.check((consumes and passes_own) or cleared, NB, "BaseNode.cast_value",
              "a slice is applied once: the host's slice is consumed by the slicing routine or cleared after use",
              detail={"slice_value_consumes_its_argument": consumes, "cast_value_passes_own_list": passes_own, "cast_value_clears": cleared},
              expected="otherwise every later re-cast (import, modification) cuts the value again")
    if consumes:
        rec = [c for c in ast.walk(sv) if isinstance(c, ast.Call) and norm(c.func) == "self.slice_value"]
        ok = bool(rec) and all(norm(c.args[0]) == f"{p}.copy()" for c in rec)
        ctx.check(ok, NB, "BaseNode.slice_value", "sibling sub-arrays each receive their own copy of the remaining slices", detail=[norm(c) for c in rec])


def slice_cells(ctx):
    """slice_value(): one (from, to) pair either picks a single element (then the rest of the slices applies to that
    element) or cuts a range (then the rest applies to every element of the range).  The test that picks the element
    and the test that recurses into a single element must agree in every cell - also for index 0."""
    from .common import concrete_truth
    sv = ctx.fn(NB, "BaseNode.slice_value")
    what = "the remaining slices go to the single element exactly when a single element was picked (also at index 0)"
    pair = next((a for a in ast.walk(sv) if isinstance(a, ast.Assign) and isinstance(a.targets[0], ast.Tuple) and len(a.targets[0].elts) == 2
                 and ".pop(0)" in norm(a.value)), None)
    if pair is None:
        ctx.form(False, NB, "BaseNode.slice_value", what, detail="(from, to) pair not found")
        return
    lo, hi = (norm(e) for e in pair.targets[0].elts)
    pick = [i for i in ast.walk(sv) if isinstance(i, ast.If) and any(isinstance(a, ast.Assign) and norm(a.value).endswith(f"[{lo}]") for a in i.body)]
    rec = [i for i in ast.walk(sv) if isinstance(i, ast.If) and any(isinstance(r, ast.Return) and isinstance(r.value, ast.Call) and norm(r.value.func) == "self.slice_value"
                                                                    for r in i.body)]
    if len(pick) != 1 or len(rec) != 1:
        ctx.form(False, NB, "BaseNode.slice_value", what, detail={"element picks": len(pick), "single-element recursions": len(rec)})
        return
    bad, und = {}, []
    for a in (None, 0, 1, 3):
        for b in (None, 0, 1, 3):
            v = {lo: a, hi: b}
            t1, t2 = concrete_truth(pick[0].test, v), concrete_truth(rec[0].test, v)
            if t1 is None or t2 is None:
                und.append((a, b))
            elif t1 != t2:
                bad[f"({a}, {b})"] = {"element picked": t1, "recursion into one element": t2}
    if bad:
        ctx.violated(NB, "BaseNode.slice_value", what, detail=bad, expected=f"both decided by `{norm(pick[0].test)}`")
    elif und:
        ctx.form(False, NB, "BaseNode.slice_value", what, detail={"undecided cells": und[:4]})
    else:
        ctx.holds(NB, "BaseNode.slice_value", what, detail={"pick": norm(pick[0].test), "recursion": norm(rec[0].test), "cells": 16})


RULES = [
    ("C17.R1", "NodeList.query/__getitem__: no write to stored nodes, no stored node returned (effect analysis); node copies deep", r1_queries_copy),
    ("C17.R2", "parse/parse_docs work on self.env.copy() and never write through self.env; copies are deep; remote sources parsed on a copy", r2_base_untouched),
    ("C17.R3", "request() count discipline; injection asks for exactly one node in data mode", r3_count),
    ("C17.R4", "injection reads the typed value (updated by modifications); raw text only under the negative type test; host unit kept", r4_authoritative),
    ("C17.R5", "import result recognised by type, never by truth value; import returns a list", r5_empty_import),
    ("C17.R6", "re-rooting writes only name/indent/import source of the copy", r6_rerooting),
    ("C17.R7", "a host slice is applied once (consumed or cleared)", r7_slice_once),
]
