"""C14 — the last assignment wins, in the units and type of the definition. Decided:
(R1) dispatch of the parse loop: lookup by path, constant => error before anything is modified,
found => modification of the existing entry, not found => append (an untyped modification of an
undefined node from a string source is an error); (R2) modification pipeline: a different data
type is an error, the new raw value is cast by the *definition's* caster, for numeric types the
assignment's unit is attached and converted into the definition's unit (value read in the
assignment's unit, asked for in the definition's), a unit-less assignment is taken in the
definition's unit; (R3) None-versus-falsy discipline: in the value path no bare truth test is
applied to a value-carrying expression (0, 0.0, False, '' are legitimate values), wrapper
objects have no __bool__/__len__; (R4) every return of parse() is dominated by the loop that
rejects declared-but-undefined nodes, and the constant flag written by the property is the one the
dispatch reads; (R5) width/sign/unit of the definition are carried by every value constructor.
NOT decided: conversion numerics (C04), literal casting (C13). (R6) properties attach to the node defined or modified last (shared with C16.R8); (R7) node copies are deep (shared with C16.R9)."""
import ast

from ..model import AnalysisError, dotted_name, methods, norm, walk_no_nested
from ..truthy import bare_truth_uses
from . import C13
from . import common as K

LEVEL_TEXT = ("static analysis (ast): order/dominance shape of the dispatch in DIP.parse, statement-level shape of the "
              "modification pipeline and of the unit conversion direction, a truthiness lint over the whole value path with "
              "a class scan proving wrappers have no __bool__/__len__")
LEVEL_NOTE = "trusted: Quantity conversion (C04); the caster table (C13.R6)"
TECHNIQUE = "ast dominance/ordering rules + truthiness lint over value-carrying expressions (static analysis)"

DIP = C13.DIP
NB = C13.NB
ND = C13.ND
TN = "src/scinumtools/dip/datatypes/type_number.py"
DT = "src/scinumtools/dip/datatypes/"


def _found_branch(ctx):
    fn = ctx.fn(DIP, "DIP.parse")
    loops = [n for n in ast.walk(fn) if isinstance(n, ast.For) and "target.nodes" in norm(n.iter) and n.orelse
             and any("modify_value" in norm(x) for x in ast.walk(n))]
    if len(loops) == 1:
        ll = K.lookup_loop(loops[0])
        if ll is not None and "name == node.name" in ll["test"]:
            return fn, ll["found"], loops[0].orelse
    ln = K.lookup_next(fn)
    if ln is not None and "name == node.name" in ln["test"] and any("modify_value" in norm(x) for s_ in ln["found"] for x in ast.walk(s_)):
        return fn, ln["found"], ln["orelse"]
    idx = [n for n in ast.walk(fn) if isinstance(n, ast.If) and isinstance(n.test, ast.Compare) and isinstance(n.test.ops[0], ast.In)
           and norm(n.test.left) == "node.name" and any("modify_value" in norm(x) for x in ast.walk(n))]
    if len(idx) == 1:
        return fn, idx[0].body, idx[0].orelse
    raise AnalysisError("merge-or-append dispatch not recognised in DIP.parse")


def r1_dispatch(ctx):
    from . import C15 as _C15
    _C15.r5_marker_stripping(ctx)   # the lookup of an existing node compares names with the clause markers removed, for every clause number (shared with C15.R5)
    C13.r4_merge_or_append(ctx)
    fn, body, orelse = _found_branch(ctx)
    stm = [norm(s) for s in body]
    ci = next((i for i, s in enumerate(body) if isinstance(s, ast.If) and norm(s.test).endswith(".constant") and any(isinstance(x, ast.Raise) for x in s.body)), None)
    mi = next((i for i, s in enumerate(body) if "modify_value(node, target)" in norm(s)), None)
    ctx.check(ci is not None and mi is not None and ci < mi, DIP, "DIP.parse", "a constant node is rejected before it is modified",
              detail={"constant_check": ci, "modify": mi, "statements": [s[:60] for s in stm]})
    ctx.check(mi is not None and not any(".append(" in s for s in stm), DIP, "DIP.parse", "an existing node is modified in place, not appended again")
    o = [norm(s) for s in orelse]
    ctx.check(any(s == "target.nodes.append(node)" for s in o), DIP, "DIP.parse", "a new node is appended", detail=[s[:70] for s in o])
    und = [s for s in orelse if isinstance(s, ast.If) and "node.keyword == 'mod'" in norm(s.test) and any(isinstance(x, ast.Raise) for x in s.body)]
    ctx.check(len(und) == 1 and orelse.index(und[0]) < next(i for i, s in enumerate(orelse) if norm(s) == "target.nodes.append(node)"), DIP,
              "DIP.parse", "an untyped modification of an undefined node (string source) is an error, checked before appending")
    # set_value precedes the dispatch so that the modifying node carries its own typed value
    src = norm(fn)
    ctx.form(src.index("node.set_value()") < src.index("modify_value(node, target)"), DIP, "DIP.parse", "the new line's own value is set before the dispatch")


def r2_pipeline(ctx):
    from . import C17 as _C17
    _C17._IN_CONVERSION.append(1)    # (C17.R4 shares this rule in turn: not re-entered from here)
    try:
        _C17.r4_authoritative(ctx)   # a modification by injection takes the referenced node's current typed value (shared with C17.R4)
    finally:
        _C17._IN_CONVERSION.pop()
    fn = ctx.fn(NB, "BaseNode.modify_value")
    body = K.body_nodoc(fn)
    s = [norm(x) for x in body]
    g = body[0] if body and isinstance(body[0], ast.If) else None
    ok = g is not None and any(isinstance(x, ast.Raise) for x in g.body) and "node.dtype != self.dtype" in norm(g.test) and "node.keyword != 'mod'" in norm(g.test)
    ctx.check(ok, NB, "BaseNode.modify_value", "a typed re-definition with another data type is an error (first statement)", detail=norm(g.test) if g is not None else None,
              expected="node.keyword != 'mod' and node.dtype != self.dtype -> raise")
    from ..flowexpr import paths
    pa = [a.arg for a in fn.args.args]
    if len(pa) != 3:
        ctx.unrecognised(NB, "BaseNode.modify_value", "signature", f"parameters {pa}")
        return
    _, p_node, p_env = pa
    COPY = "self.value.copy()"
    ps = [q for q in paths(fn) if q.status != "raise"]
    casts, numeric, copies, final, none_units = set(), [], [], [], []
    from ..flowexpr import reduce_ifexp
    for q in ps:
        stores = [e for e in q.events if e.kind == "store"]
        for e in stores:
            if e.extra == f"{COPY}.value":
                casts.add(norm(e.resolved))
        copies.append(any(COPY in norm(e.resolved) or COPY in str(e.extra) for e in q.events if e.kind in ("store", "expr")))
        isnum = None
        verdicts = {t.extra for t in q.tests() if norm(t.resolved) in (f"isinstance({COPY}, (IntegerType, FloatType))", f"isinstance({COPY}, (FloatType, IntegerType))",
                                                                        f"isinstance({COPY}, NumberType)")}
        if len(verdicts) == 2:
            continue          # infeasible: the integer/float wrappers are exactly the number wrappers
        for t in q.tests():
            if norm(t.resolved) in (f"isinstance({COPY}, (IntegerType, FloatType))", f"isinstance({COPY}, (FloatType, IntegerType))", f"isinstance({COPY}, NumberType)"):
                isnum = t.extra if isnum is None else isnum
        if isnum:
            seq = []
            for e in q.events:
                if e.kind == "store" and e.extra == f"{COPY}.unit":
                    seq.append(f"unit={norm(e.resolved)}")
                elif e.kind == "expr" and norm(e.resolved).startswith(f"{COPY}.convert("):
                    seq.append(norm(e.resolved).replace(COPY, "value"))
            numeric.append(seq[:2])
        elif isnum is None:
            numeric.append(None)
        none = None
        for t in q.tests():
            k = norm(t.resolved)
            if k == f"{COPY}.value is None":
                none = t.extra
            elif k == f"{COPY}.value is not None":
                none = not t.extra
        if none is None:
            final.append(False)
        elif none:
            final.append(any(e.extra == "self.value" and norm(e.resolved) == COPY for e in stores))
            # the unit a none value keeps: the definition's, for numbers
            us = [e for e in stores if e.extra == f"{COPY}.unit"]
            if us and isnum is not False:
                num_atoms = {f"isinstance({COPY}, NumberType)": True, f"isinstance({COPY}, (IntegerType, FloatType))": True,
                             f"isinstance({COPY}, (FloatType, IntegerType))": True}
                none_units.append(norm(reduce_ifexp(us[-1].resolved, lambda e_: num_atoms.get(norm(e_)))))
        else:
            final.append(any(e.kind == "expr" and norm(e.resolved) == f"self.set_value({COPY}.value)" for e in q.events))
    want_cast = f"self.cast_value({p_node}.value_raw)"
    if not casts:
        ctx.unrecognised(NB, "BaseNode.modify_value", "the new raw value is cast by the definition's caster", "no store to the value of the copied typed value found")
    else:
        ctx.check(casts == {want_cast}, NB, "BaseNode.modify_value", "the new raw value is cast by the definition's caster", detail=sorted(casts), expected=want_cast)
    narrow = sorted({norm(t.resolved) for q in ps for t in q.tests() if norm(t.resolved) in (f"isinstance({COPY}, FloatType)", f"isinstance({COPY}, IntegerType)")})
    if narrow and (not numeric or any(n is None for n in numeric)):
        ctx.violated(NB, "BaseNode.modify_value", "integer and float nodes both take the assignment's unit and are converted into the definition's unit",
                     detail=narrow, expected=f"isinstance({COPY}, (IntegerType, FloatType))")
    elif not numeric or any(n is None for n in numeric):
        ctx.unrecognised(NB, "BaseNode.modify_value", "numeric branch", "unit handling block not found")
    else:
        want = [f"unit={p_node}.units_raw", f"value.convert(self.units_raw, {p_env})"]
        seqs = [n for n in numeric if n is not None]
        ctx.check(bool(seqs) and all(n == want for n in seqs), NB, "BaseNode.modify_value",
                  "the assignment's unit is attached, then converted into the definition's unit under the environment's custom units",
                  detail=sorted({str(n) for n in seqs}), expected=want)
    ctx.form(bool(copies) and all(copies), NB, "BaseNode.modify_value", "works on a copy of the definition's typed value (type, width, sign kept)")
    recast = sorted({norm(e.resolved) for q in ps for e in q.events if e.kind == "expr" and e.resolved is not None and norm(e.resolved).startswith("self.set_value(self.cast_value(")
                     and COPY in norm(e.resolved)})
    if recast:
        ctx.violated(NB, "BaseNode.modify_value", "the converted value is stored as it is (no second cast after the unit conversion)", detail=recast,
                     expected=f"self.set_value({COPY}.value): the caster of an integer node truncates, 290 mm -> 28.999999999999996 cm -> 28")
    else:
        ctx.form(bool(final) and all(final), NB, "BaseNode.modify_value", "the converted value is stored through the node's own setter; none is stored as none")
    what = "a number modified to none keeps the unit of its definition"
    ctx.form(bool(none_units), NB, "BaseNode.modify_value", "the unit stored with a none value is found")
    if none_units:
        wrong = sorted({u_ for u_ in none_units if u_ in (f"{p_node}.units_raw", "None")})
        if wrong:
            ctx.violated(NB, "BaseNode.modify_value", what, detail=wrong, expected="self.units_raw")
        else:
            ctx.form(all(u_ == "self.units_raw" for u_ in none_units), NB, "BaseNode.modify_value", what, detail=sorted(set(none_units)))
    conversion_table(ctx)


def conversion_table(ctx):
    """NumberType.convert: decision table over (unit given, own unit present, units equal, environment given, array);
    tests over the number held are free.  Shared with C16.R3 (options and conditions are compared after this conversion)
    and C17.R4."""
    # a refused modification (other dimension) must not leave the custom units registered: the scope opened for the
    # conversion is lexical (shared with C09.R4)
    from . import C09 as _C09
    _C09.r4_lexical_scopes(ctx)
    from ..flowexpr import consistent, paths, reduce_ifexp
    fn = ctx.fn(TN, "NumberType.convert")
    pa = [a.arg for a in fn.args.args]
    if len(pa) != 3:
        ctx.unrecognised(TN, "NumberType.convert", "signature", f"parameters {pa}")
        return
    _, u, en = pa
    ps = paths(fn)
    rows = {"direction": [], "gate": [], "adopt": [], "env": []}
    arr_atoms = {"isinstance(self.value, np.ndarray)": True, "isinstance(self.value, (list, np.ndarray))": True, "isinstance(self.value, (np.ndarray, list))": True,
                 "np.ndim(self.value) > 0": True, "np.ndim(self.value) == 0": False, "np.ndim(self.value) != 0": True, "np.isscalar(self.value)": False,
                 "hasattr(self.value, '__len__')": True, "hasattr(self.value, 'shape')": True}
    unk = []
    for given in (True, False):
        for own in (True, False):
            for equal in (True, False):
                for noenv, isarr in ((a, b) for a in (True, False) for b in (True, False)):
                  for free in (True, False):
                    # a test over the *number* held (zero, sign, any()) is not part of the cell: both of its outcomes are
                    # values a node can hold, so the table is evaluated once with every such test true and once false
                    def atom(e, _g=given, _o=own, _e=equal, _n=noenv, _a=isarr, _f=free):
                        t = norm(e)
                        if t in arr_atoms:
                            return arr_atoms[t] == _a
                        if "self.value" in t and not t.startswith("isinstance(") and not t.startswith("hasattr(") and (t.startswith(("np.any(", "np.all(", "not np.any(", "not np.all(")) or " == 0" in t or " != 0" in t or t in ("self.value", "not self.value")):
                            return _f
                        if t in ("isinstance(self.value, list)", "isinstance(self.value, tuple)", "isinstance(self.value, (list, tuple))", "isinstance(self.value, (tuple, list))"):
                            return False          # neither a scalar nor the numpy array cast_value builds (established below) is a list
                        return {u: _g, "self.unit": _o, f"self.unit != {u}": not _e, f"self.unit == {u}": _e, f"{u} != self.unit": not _e, f"{u} == self.unit": _e,
                                f"{en} is None": _n, f"{en} is not None": not _n, en: not _n}.get(t)
                    cs, un = consistent(ps, atom)
                    unk += un
                    conv = given and own and not equal
                    for q in cs:
                        vals = [(isarr, reduce_ifexp(e.resolved, atom)) for e in q.events if e.kind == "store" and e.extra == "self.value"]
                        units = [norm(e.resolved) for e in q.events if e.kind == "store" and e.extra == "self.unit"]
                        withs = [norm(e.resolved) for e in q.events if e.kind == "expr" and e.extra == "with"]
                        rows["gate"].append((conv, bool(vals), f"unit={given} own={own} equal={equal}"))
                        if conv:
                            rows["direction"].append(vals)
                            rows["adopt"].append(units)
                            if not noenv:
                                idx_w = [i for i, e in enumerate(q.events) if e.kind == "expr" and e.extra == "with" and norm(e.resolved) == f"UnitEnvironment({en}.units)"]
                                idx_s = [i for i, e in enumerate(q.events) if e.kind == "store" and e.extra == "self.value"]
                                rows["env"].append(bool(idx_w) and bool(idx_s) and idx_w[0] < idx_s[0])
    if unk:
        ctx.unrecognised(TN, "NumberType.convert", "conversion table", f"test not decided: {sorted(set(unk))[:2]}")
    else:
        ctx.floor("conversion paths in NumberType.convert", len(rows["direction"]), 2, file=TN)
        _conversion_shape(ctx, rows["direction"], u)
        badg = sorted({g[2] for g in rows["gate"] if g[0] != g[1]})
        ctx.check(not badg, TN, "NumberType.convert", "a unit-less assignment (or an unchanged unit) is taken as it is; otherwise converted", detail=badg or None)
        ctx.check(all(x == [u] for x in rows["adopt"]), TN, "NumberType.convert", "after conversion the value carries the target unit", detail=sorted({str(x) for x in rows["adopt"]}))
        ctx.form(bool(rows["env"]) and all(rows["env"]), TN, "NumberType.convert", "custom units of the environment are in scope during the conversion")


SCALAR_ONLY = ("float", "int", "complex")     # raise TypeError on arrays of more than one element
ARRAY_SAFE = ("self.value", "np.asarray(self.value)", "np.asarray(self.value, dtype=float)", "np.asarray(self.value, float)", "np.array(self.value, dtype=float)",
              "np.array(self.value)", "self.value.astype(float)", "np.float64(self.value)", "np.multiply(self.value, 1.0)", "self.value * 1.0", "1.0 * self.value")


def _conversion_shape(ctx, stores, u):
    """stores: per conversion path the list of (value is an array, expression stored into self.value).  The stored
    expression has to be Quantity(M, self.unit).value(<target>) - the magnitude M read in the value's own unit and
    asked for in the target unit - and M has to be defined for the values the wrapper can hold: a scalar and, for a
    node declared with dimensions, the numpy array BaseNode.cast_value builds."""
    import ast as _ast
    where = (TN, "NumberType.convert")
    swapped, scalar_only, other = [], [], []
    nsites = 0
    for vals in stores:
        if len(vals) != 1:
            other.append(f"{len(vals)} stores into self.value on a conversion path")
            continue
        isarr, e = vals[0]
        ok = isinstance(e, _ast.Call) and isinstance(e.func, _ast.Attribute) and e.func.attr == "value" and len(e.args) == 1 and not e.keywords \
            and isinstance(e.func.value, _ast.Call) and norm(e.func.value.func) == "Quantity" and len(e.func.value.args) == 2 and not e.func.value.keywords
        if not ok:
            other.append(norm(e))
            continue
        mag, own, target = e.func.value.args[0], norm(e.func.value.args[1]), norm(e.args[0])
        nsites += 1
        if (own, target) == (u, "self.unit"):
            swapped.append(norm(e))
            continue
        if (own, target) != ("self.unit", u):
            other.append(norm(e))
            continue
        m = norm(mag)
        if isinstance(mag, _ast.Call) and isinstance(mag.func, _ast.Name) and mag.func.id in SCALAR_ONLY and len(mag.args) == 1 and norm(mag.args[0]) == "self.value":
            if isarr:
                scalar_only.append(m)
        elif m not in ARRAY_SAFE:
            other.append(f"magnitude {m}")
    ctx.floor("conversion stores of NumberType.convert", nsites, 2, file=TN)
    ctx.check(not swapped, *where, "value is read in its own unit and asked for in the target unit", detail=sorted(set(swapped)) or None,
              expected=f"Quantity(<magnitude>, self.unit).value({u})")
    # values of nodes declared with dimensions are numpy arrays: established from BaseNode.cast_value
    cast = ctx.fn(NB, "BaseNode.cast_value")
    arrays = [n for n in _ast.walk(cast) if isinstance(n, _ast.Call) and norm(n.func) in ("np.array", "np.asarray", "numpy.array")]
    ctx.form(bool(arrays), NB, "BaseNode.cast_value", "values of nodes declared with dimensions are built as numpy arrays")
    if arrays:
        ctx.check(not scalar_only, *where, "the conversion is defined for array values (no scalar-only coercion reaches an array)",
                  detail=[f"{x} raises TypeError for an array of more than one element; reached with no test that excludes arrays" for x in sorted(set(scalar_only))] or None,
                  expected="array values converted element-wise, e.g. Quantity(self.value, self.unit).value(unit)")
    ctx.form(not other, *where, "conversion has the shape Quantity(<magnitude of self.value>, self.unit).value(<target unit>)", detail=sorted(set(other))[:3] or None)


def _wrapper_classes(ctx):
    out = {}
    for f in ("type.py", "type_boolean.py", "type_number.py", "type_integer.py", "type_float.py", "type_string.py"):
        try:
            mod = ctx.repo.module(DT + f)
        except AnalysisError:
            continue
        for cname, c in mod.classes.items():
            out[cname] = [m for m in methods(c) if m in ("__bool__", "__len__")]
    return out


VALUE_FUNCS = [
    (NB, "BaseNode.set_value"), (NB, "BaseNode.cast_value"), (NB, "BaseNode.modify_value"), (NB, "BaseNode.raw_empty"), (NB, "BaseNode.inject_value"),
    (ND + "node_float.py", "FloatNode.set_value"), (ND + "node_integer.py", "IntegerNode.set_value"),
    (ND + "node_string.py", "StringNode.set_value"), (ND + "node_boolean.py", "BooleanNode.set_value"),
    (TN, "NumberType.convert"), (ND + "node_select.py", "SelectNode.set_option"),
]


def _tracked_nodes(s):
    # value-carrying expressions in the node classes: raw text, cast values, values inside wrappers
    return s in ("value", "self.value_raw", "node.value_raw", "value.value", "self.value.value", "nodes[0].value.value", "parsed", "value_raw")


def _tracked_types(s):
    # inside the typed-value classes self.value *is* the number
    return s in ("self.value", "other.value", "value", "left", "right")


def r3_none_vs_falsy(ctx):
    wr = _wrapper_classes(ctx)
    ctx.floor("typed-value wrapper classes", len(wr), 6, file=DT)
    for cname, dunders in sorted(wr.items()):
        ctx.check(not dunders, DT, cname, "typed-value wrapper defines no __bool__/__len__ (its truth value means 'present')", detail=dunders or None)
    n = 0
    for rel, q in VALUE_FUNCS:
        try:
            fn = ctx.fn(rel, q)
        except AnalysisError as e:
            ctx.unrecognised(rel, q, "value-path function", str(e))
            continue
        tracked = _tracked_types if rel.startswith(DT) else _tracked_nodes
        hits = bare_truth_uses(fn, tracked)
        n += 1
        if hits:
            for expr, test, line in hits:
                ctx.violated(rel, q, f"bare truth test on value-carrying `{expr}` in `{test[:70]}`",
                             detail="0, 0.0, False and '' are legitimate values; this test treats them as missing",
                             expected=f"`{expr} is None` / `is not None`")
        else:
            ctx.holds(rel, q, "no bare truth test on a value-carrying expression")
    ctx.floor("value-path functions", n, 10)
    # positive control
    fix = ast.parse("def f(self, value=None):\n    if value is None and self.value_raw:\n        pass\n    elif value:\n        pass\n    x = 1 if not value.value else 2\n")
    for node in ast.walk(fix):
        for ch in ast.iter_child_nodes(node):
            ch._parent = node
    got = sorted(h[0] for h in bare_truth_uses(fix.body[0], _tracked_nodes))
    if got != ["self.value_raw", "value", "value.value"]:
        raise AnalysisError(f"truthiness lint self-check failed: {got}")
    ctx.holds("-", "fixture", "lint recognises if/elif/conditional-expression truth tests", detail=got, trivial=True)


def r4_final_checks(ctx):
    fn = ctx.fn(DIP, "DIP.parse")
    body = K.body_nodoc(fn)
    rets = [r for r in ast.walk(fn) if isinstance(r, ast.Return) and r.value is not None]
    ctx.check(len(rets) == 1 and body[-1] is rets[0] and norm(rets[0].value) == "target", DIP, "DIP.parse",
              "the only successful exit is the final `return target`", detail=[norm(r) for r in rets])
    val = [s for s in body if isinstance(s, ast.For) and norm(s.iter) == "target.nodes"]
    ok = len(val) == 1 and body.index(val[0]) < len(body) - 1
    ctx.check(ok, DIP, "DIP.parse", "a validation loop over all nodes precedes the return")
    if ok:
        first = val[0].body[0]
        v = val[0].target.id if isinstance(val[0].target, ast.Name) else "node"
        ok2 = isinstance(first, ast.If) and norm(first.test) in (f"{v}.defined and {v}.value is None", f"{v}.value is None and {v}.defined") \
            and any(isinstance(x, ast.Raise) for x in first.body)
        ctx.form(ok2, DIP, "DIP.parse", "a declared node without value makes parsing fail", detail=norm(first.test) if isinstance(first, ast.If) else None,
                  expected="node.defined and node.value is None -> raise")
        esc = [x for x in ast.walk(val[0]) if isinstance(x, (ast.Break, ast.Return))]
        ctx.check(not esc, DIP, "DIP.parse", "the validation loop visits every node (no early exit)", detail=[norm(x) for x in esc] or None)
    cn = ctx.fn(ND + "node_constant.py", "ConstantNode.parse")
    w = [norm(a) for a in ast.walk(cn) if isinstance(a, ast.Assign)]
    ctx.check(any(x.endswith(".constant = True") for x in w), ND + "node_constant.py", "ConstantNode.parse", "the property writes the flag the dispatch reads", detail=w)
    # declarations are marked by the typed recognisers
    # siblings: the typed recognisers (bool, int, float, str, table) fill one slot of the recogniser list and have to agree
    # on what a line without '=' means.  Each is read for "some path that has not parsed '=' sets <parser>.defined = True";
    # a recogniser that never sets the flag while its siblings do is the violation (its declarations are never demanded)
    from ..flowexpr import paths as _paths
    sib = {}
    for f, c in (("node_boolean.py", "BooleanNode"), ("node_integer.py", "IntegerNode"), ("node_float.py", "FloatNode"), ("node_string.py", "StringNode"),
                 ("node_table.py", "TableNode")):
        fn_ = ctx.fn(ND + f, f"{c}.is_node")
        par_ = fn_.args.args[0].arg if fn_.args.args else "parser"
        marks = False
        for q in _paths(fn_):
            eq = [t.extra for t in q.tests() if isinstance(t.resolved, ast.AST) and "is_parsed('part_equal')" in norm(t.resolved) and not norm(t.resolved).startswith("not ")]
            sets_ = any(e.kind == "store" and e.extra == f"{par_}.defined" and norm(e.resolved) == "True" for e in q.events)
            if eq and eq[0] is False and sets_:
                marks = True
        sib[(f, c)] = marks
    for (f, c), marks in sib.items():
        whatd = "a typed line without '=' is a declaration"
        if marks:
            ctx.holds(ND + f, f"{c}.is_node", whatd)
        elif sum(sib.values()) >= 3:
            ctx.violated(ND + f, f"{c}.is_node", whatd, detail="no path without '=' sets parser.defined = True",
                         expected=f"else: parser.defined = True  (as {', '.join(k[1] for k, v in sib.items() if v)})")
        else:
            ctx.form(False, ND + f, f"{c}.is_node", whatd)


def r5_type_kept(ctx):
    C13.r6_scalar_literals(ctx)


def r6_property_target(ctx):
    """Property lines (!constant, !options, ...) that follow an assignment belong to the node that assignment defined
    or modified - otherwise `!constant` after a modification protects another node (shared with C16.R8)."""
    from . import C16 as _C16
    _C16.r8_property_target(ctx)


def r7_copies_are_deep(ctx):
    """Comparisons, conditions and imports work on copies of nodes (NumberType._prepare converts its left operand in
    place): the stored value and unit of a node survive only if those copies share nothing with it (shared with C16.R9)."""
    from . import C16 as _C16
    _C16.r9_deep_copies(ctx)


RULES = [
    ("C14.R1", "dispatch: constant => error before modification; existing path => modify in place; new path => append; untyped modification of an undefined node => error", r1_dispatch),
    ("C14.R2", "modification pipeline: type check, definition's caster, assignment unit attached then converted into the definition's unit (direction checked), unit-less taken as is", r2_pipeline),
    ("C14.R3", "no bare truth test on a value-carrying expression anywhere in the value path; wrappers have no __bool__/__len__", r3_none_vs_falsy),
    ("C14.R4", "single successful exit dominated by the validation loop, which rejects declared-but-undefined nodes; constant flag written = flag read", r4_final_checks),
    ("C14.R7", "node copies handed out by queries are deep, so in-place unit alignment during comparisons cannot reach the stored node (shared with C16.R9)", r7_copies_are_deep),
    ("C14.R6", "properties after a definition or modification attach to that node (shared with C16.R8)", r6_property_target),
    ("C14.R5", "every typed-value constructor carries the definition's unit, width and sign; scalar caster table", r5_type_kept),
]
