"""C15 — a node takes effect exactly when all enclosing case clauses are selected. Decided:
(R1) in the parse loop every statement that makes a non-case line effective (injection, parse of
property/typed nodes, setting, modifying, appending) is guarded by the negative outcome of the skip
test; (R2) the skip test quantifies over the *whole* stack of open blocks and, per block, skips
unless exactly one clause so far is true and the current clause is that one (decision table over
#true in {0,1,2} x current in {true,false}); (R3) clause ladder: @else/@end need an *open* block at
their path, @end closes, same path switches, outer path closes down to it, inner path opens;
(R4) blocks left by de-indentation are closed, in a loop, before the first skip test of a line, for
every line kind that takes part in the hierarchy, with the closing condition
indent < clause indent, or = and the line is not itself a clause. NOT decided: evaluation of the
conditions (C18); equivalence of the path-string comparison with true nesting. (R5) clause markers of any number are stripped from node names (regex AST vs the unbounded clause counter)."""
import ast

from ..literal import Evaluator
from ..model import AnalysisError, dotted_name, methods, norm, walk_no_nested
from ..predtable import Handler, Unrecognised, run_block, truth
from . import C13
from . import common as K

LEVEL_TEXT = ("static analysis (ast): guard/ordering shape of the parse loop, decision tables of the skip test, the clause "
              "ladder and the indentation closing extracted by interpreting the branch structure under every valuation; "
              "covers all nestings and truth assignments at the level of the per-block and per-line decisions")
LEVEL_NOTE = "trusted: case paths encode nesting as the code assumes; conditions are evaluated by the logical solver (C18)"
TECHNIQUE = "ast guard/ordering rules + decision-table extraction (static analysis)"

DIP = C13.DIP
BR = "src/scinumtools/dip/lists/list_branching.py"


def _loop(ctx):
    fn = ctx.fn(DIP, "DIP.parse")
    loops = [n for n in fn.body if isinstance(n, ast.While) and "queue.nodes" in norm(n.test)]
    if len(loops) != 1:
        raise AnalysisError("parse loop `while len(queue.nodes)` not found")
    return fn, loops[0]


def r1_skip_dominates(ctx):
    fn, lp = _loop(ctx)
    eff1 = [s for s in ast.walk(lp) if isinstance(s, ast.Call) and norm(s.func) in ("node.inject_value", "node.parse")]
    for c in eff1:
        st = c
        guard = None
        while st is not lp:
            par = st._parent
            if isinstance(par, ast.If) and st in par.body:
                guard = par
                break
            st = par
        t = norm(guard.test) if guard is not None else None
        ok = t in ("not target.branching.false_case() or node.keyword == 'case'", "node.keyword == 'case' or not target.branching.false_case()")
        ctx.form(ok, DIP, "DIP.parse", f"{norm(c.func)}(...) runs only for case lines or when no enclosing clause is unselected", detail=t,
                  expected="not target.branching.false_case() or node.keyword == 'case'")
    # the chain that registers values: ... elif false_case(): continue  else: <effects>
    chains = [s for s in lp.body if isinstance(s, ast.If) and norm(s.test) == "node.keyword in self.nodes_notypes"]
    if len(chains) != 1:
        ctx.unrecognised(DIP, "DIP.parse", "registration chain", "if/elif chain on the node kind not found")
        return
    node = chains[0]
    order = []
    cur = node
    final = None
    while True:
        order.append(norm(cur.test))
        if len(cur.orelse) == 1 and isinstance(cur.orelse[0], ast.If):
            cur = cur.orelse[0]
        else:
            final = cur.orelse
            break
    skip = [i for i, t in enumerate(order) if t == "target.branching.false_case()"]
    ok = len(skip) == 1
    if ok:
        # find that branch body
        cur = node
        for _ in range(skip[0]):
            cur = cur.orelse[0]
        ok = [norm(s) for s in cur.body] == ["continue"]
    ctx.form(ok, DIP, "DIP.parse", "a value line in an unselected clause is skipped before it is set, merged or appended", detail=order,
              expected="... elif target.branching.false_case(): continue; else: <set_value / modify_value / append>")
    eff2 = [norm(c.func) for s in (final or []) for c in ast.walk(s) if isinstance(c, ast.Call) and norm(c.func) in
            ("node.set_value", "target.nodes.append") or (isinstance(c, ast.Call) and norm(c.func).endswith(".modify_value"))]
    ctx.form(len(eff2) >= 3, DIP, "DIP.parse", "setting, modifying and appending happen only in the final (guarded) branch", detail=eff2)
    outside = [norm(c) for c in ast.walk(lp) if isinstance(c, ast.Call) and (norm(c.func) in ("node.set_value", "target.nodes.append") or norm(c.func).endswith(".modify_value"))
               and not any(c in list(ast.walk(s)) for s in (final or []))]
    ctx.form(not outside, DIP, "DIP.parse", "no value effect outside the guarded branch", detail=outside or None)
    ci = next((i for i, t in enumerate(order) if t == "node.keyword == 'case'"), None)
    ctx.form(ci is not None and (not skip or ci < skip[0]), DIP, "DIP.parse", "clause lines are always handed to the clause ladder, even inside unselected clauses")


class BlockSkip(Handler):
    def __init__(self, num_true, current):
        super().__init__()
        self.n, self.cur = num_true, current
        self.ret = None

    def test(self, node):
        if isinstance(node, ast.Compare) and len(node.ops) == 1 and norm(node.left) == "num_true" and isinstance(node.comparators[0], ast.Constant):
            c = node.comparators[0].value
            return {ast.Eq: self.n == c, ast.NotEq: self.n != c, ast.Lt: self.n < c, ast.LtE: self.n <= c, ast.Gt: self.n > c, ast.GtE: self.n >= c}.get(type(node.ops[0]))
        s = norm(node)
        cur = ("self.cases[cases[-1]].value", "self.cases[case].value", "self.cases[self._get_case_id()].value")
        for c in cur:
            if s == f"{c} == False" or s == f"not {c}" or s == f"{c} is False":
                return not self.cur
            if s == f"{c} == True" or s == c:
                return self.cur
        return None

    def stmt(self, node):
        if isinstance(node, ast.Return):
            self.ret = norm(node.value)
        elif isinstance(node, ast.Assign) and norm(node.targets[0]) in ("cases", "num_true", "case", "branch"):
            self.actions.append(norm(node))
        else:
            raise Unrecognised(norm(node))


def _block_atom(B, n, cur):
    """Valuation of the tests about one open block B: number of true clauses so far (n) and value of the current clause."""
    from ..model import cnorm
    SUM = f"sum([self.cases[_c0].value == True for _c0 in self.branches[{B}].cases])"
    SUM2 = f"sum((self.cases[_c0].value == True for _c0 in self.branches[{B}].cases))"
    CUR = (f"self.cases[self.branches[{B}].cases[-1]].value",)

    def atom(e):
        if isinstance(e, ast.Compare) and len(e.ops) == 1 and isinstance(e.comparators[0], ast.Constant) and cnorm(e.left) in (SUM, SUM2) \
                and isinstance(e.comparators[0].value, int) and not isinstance(e.comparators[0].value, bool):
            c = e.comparators[0].value
            return {ast.Eq: n == c, ast.NotEq: n != c, ast.Lt: n < c, ast.LtE: n <= c, ast.Gt: n > c, ast.GtE: n >= c}.get(type(e.ops[0]))
        k = norm(e)
        for c in CUR:
            if k in (f"{c} == False", f"{c} is False"):
                return not cur
            if k in (f"{c} == True", c, f"{c} is True"):
                return cur
        return None
    return atom


def r2_skip_test(ctx):
    """The skip test as a quantifier over the open blocks with a per-block predicate, in either spelling
    (`for b in self.state: ... return True` / `return any(P(b) for b in self.state)`); the predicate is evaluated
    on resolved paths under (true clauses so far, value of the current clause)."""
    K.identity_of_values(ctx, ['src/scinumtools/dip/datatypes', 'src/scinumtools/dip/solvers', 'src/scinumtools/dip/lists/list_branching.py'], 'the truth of a condition is decided by value, not by object identity')
    from ..flowexpr import consistent, explore, paths, truth
    fn = ctx.fn(BR, "BranchingList.false_case")
    c = ctx.repo.cls(BR, "BranchingList")
    nm = "BranchingList.false_case"
    ex = explore(fn)
    loops = [v for v in ex.iterations.values() if isinstance(v[0], ast.For)]
    rets = [e.resolved for q in ex.paths for e in q.events if e.kind == "return"]
    coll = None
    pred = None          # (n, cur) -> True (skip) / False (no objection) / None (unknown)
    empty_ok = None
    if len(loops) == 1 and isinstance(loops[0][0].target, ast.Name):
        lp, start, its = loops[0]
        coll = norm(lp.iter)
        B = lp.target.id + "@loop1"

        def pred(n, cur):
            cs, unk = consistent(its, _block_atom(B, n, cur), start)
            if unk or not cs:
                return None
            outs = {(q.status, norm(next((e.resolved for e in q.events[start:] if e.kind == "return"), None))) for q in cs}
            if outs == {("return", "True")}:
                return True
            if all(o[0] in (None, "continue") for o in outs):
                return False
            return None
        # paths that leave the function without objection return False; the empty case returns False
        tail = {norm(e.resolved) for q in ex.paths if not any(x.kind == "return" and x.node in list(ast.walk(lp)) for x in q.events) for e in q.events if e.kind == "return"}
        empty_ok = tail == {"False"}
    elif len(rets) == 1 and isinstance(rets[0], ast.Call) and dotted_name(rets[0].func) == "any" and len(rets[0].args) == 1 \
            and isinstance(rets[0].args[0], (ast.GeneratorExp, ast.ListComp)) and len(rets[0].args[0].generators) == 1 \
            and not rets[0].args[0].generators[0].ifs and isinstance(rets[0].args[0].generators[0].target, ast.Name):
        g = rets[0].args[0]
        coll = norm(g.generators[0].iter)
        var = g.generators[0].target.id
        empty_ok = True        # any() of nothing is False
        elt = g.elt
        if isinstance(elt, ast.Call) and isinstance(elt.func, ast.Attribute) and norm(elt.func.value) == "self" and elt.func.attr in methods(c) \
                and [norm(a) for a in elt.args] == [var]:
            h = methods(c)[elt.func.attr]
            ctx.functions_analysed.add(f"{BR}::BranchingList.{h.name}")
            B = h.args.args[1].arg if len(h.args.args) == 2 else None
            hp = paths(h)

            def pred(n, cur):
                at = _block_atom(B, n, cur)
                cs, unk = consistent(hp, at)
                if unk or not cs:
                    return None
                vals = set()
                for q in cs:
                    r = next((e.resolved for e in q.events if e.kind == "return"), None)
                    vals.add(truth(r, at) if r is not None else None)
                return vals.pop() if len(vals) == 1 else None
        else:
            def pred(n, cur):
                return truth(elt, _block_atom(var, n, cur))
    if coll is None or pred is None:
        inner_only = any("self._get_branch_id()" in norm(s_) or "self.state[-1]" in norm(s_) for s_ in fn.body)
        if inner_only:
            ctx.violated(BR, nm, "the skip test consults every open block", detail="only the innermost block is consulted",
                         expected="a selected clause nested in an unselected one must not take effect: loop over self.state")
        else:
            ctx.unrecognised(BR, nm, "quantification over open blocks", "no loop over self.state")
        return
    ctx.form(bool(empty_ok), BR, nm, "outside any block nothing is skipped")
    ctx.check(coll in ("self.state", "reversed(self.state)", "list(self.state)"), BR, nm,
              "the skip test consults every open block", detail=coll, expected="for branch in self.state")
    ctx.holds(BR, nm, "per block: clauses of that block and the number of true ones so far", detail="read through the resolved predicate")
    for n in (0, 1, 2):
        for cur in (True, False):
            if n == 0 and cur:
                continue          # inconsistent: a true current clause counts itself
            cell = f"block cell true-so-far={n} current={'true' if cur else 'false'}"
            got = pred(n, cur)
            if got is None:
                ctx.unrecognised(BR, nm, cell, "predicate not decided by the cell valuation")
                continue
            want = not (n == 1 and cur)
            ctx.check(got == want, BR, nm, cell, detail="skip" if got else "no verdict", expected="skip (return True)" if want else "no verdict: go on to the next block")
    ctx.check(bool(empty_ok), BR, nm, "if no open block objects, the line takes effect")
    # @else counts as a true clause
    cn = ctx.fn("src/scinumtools/dip/nodes/node_case.py", "CaseNode.parse")
    cps = paths(cn)
    table, unk = {}, []
    for kind in ("CASE", "ELSE", "END"):
        def atom(e, _k=kind):
            k = norm(e)
            if isinstance(e, ast.Call) and dotted_name(e.func) == "re.match":
                return True
            for x in ("CASE", "ELSE", "END"):
                if k.endswith(f".group(2) == Keyword.{x}") or k == f"self.case_type == Keyword.{x}":
                    return _k == x
                if k.endswith(f".group(2) != Keyword.{x}") or k == f"self.case_type != Keyword.{x}":
                    return _k != x
            if k in ("self.value_expr",):
                return True
            return None
        cs, u = consistent(cps, atom)
        unk += u
        table[kind] = sorted({norm(e.resolved)[:40] for q in cs for e in q.events if e.kind == "store" and e.extra == "self.value"})
    if unk:
        ctx.unrecognised("src/scinumtools/dip/nodes/node_case.py", "CaseNode.parse", "@else carries the value true (selected iff no earlier clause was)",
                         f"test not decided: {sorted(set(unk))[:2]}")
    else:
        ctx.check(table["ELSE"] == ["BooleanType(True)"] and table["END"] == [], "src/scinumtools/dip/nodes/node_case.py", "CaseNode.parse",
                  "@else carries the value true (selected iff no earlier clause was)", detail=table)


class Ladder(Handler):
    def __init__(self, ctype, open_same, any_cases, same, outer, state_nonempty=True):
        super().__init__()
        self.ctype, self.open_same, self.any_cases, self.same, self.outer, self.state = ctype, open_same, any_cases, same, outer, state_nonempty
        self.act = []

    def test(self, node):
        s = norm(node)
        for k in ("CASE", "ELSE", "END"):
            if s == f"node.case_type == Keyword.{k}":
                return self.ctype == k
        if s.startswith("path_new in [") and "self.state" in s:
            return self.open_same
        if s == "self.cases":
            return self.any_cases
        if s == "self.state":
            return self.state
        if s in ("path_old == path_new", "path_new == path_old"):
            return self.same
        if s == "path_new < path_old":
            return self.outer
        if s in ("path_new != path_old",):
            return not self.same
        return None

    def stmt(self, node):
        s = norm(node)
        if isinstance(node, ast.Raise):
            self.act.append("raise")
        elif isinstance(node, ast.Return):
            self.act.append("return")
        elif s == "self._close_branch()":
            self.act.append("close")
        elif "self._switch_case(" in s:
            self.act.append("switch")
        elif "self._open_branch(" in s:
            self.act.append("open")
        elif isinstance(node, (ast.Assign, ast.Expr)):
            pass
        else:
            raise Unrecognised(s)

    def compound(self, st):
        if isinstance(st, ast.While) and norm(st.test) == "path_new != path_old" and any(norm(x) == "self._close_branch()" for x in st.body):
            self.act.append("close-down")
            return "fall"
        raise Unrecognised(f"compound {type(st).__name__}")


def r3_ladder(ctx):
    _clause_keyword_patterns(ctx)
    fn = ctx.fn(BR, "BranchingList.solve_case")
    top = [s for s in fn.body if isinstance(s, ast.If) and isinstance(s.test, ast.NamedExpr)]
    if len(top) != 1:
        ctx.unrecognised(BR, "BranchingList.solve_case", "ladder", "`if m := re.match(...)` not found")
        return
    ctx.form(any(isinstance(x, ast.Raise) for x in top[0].orelse), BR, "BranchingList.solve_case", "a clause name without case number is an error")
    # what the @else admission quantifies over
    adm = [n for n in ast.walk(top[0]) if isinstance(n, ast.If) and "Keyword.ELSE" in norm(n.test)]
    if adm:
        t = norm(adm[0].test)
        if "self.state" in t:
            ctx.holds(BR, "BranchingList.solve_case", "@else is admitted only for a block that is still open", detail=t)
        elif "self.cases" in t:
            ctx.violated(BR, "BranchingList.solve_case", "@else is admitted only for a block that is still open", detail=t,
                         expected="the test must range over the open blocks (self.state), not over every clause ever registered: '@else' after '@end' must fail")
        else:
            ctx.unrecognised(BR, "BranchingList.solve_case", "@else admission", t)
    cells = [
        ("CASE at the path of the open block", dict(ctype="CASE", open_same=True, any_cases=True, same=True, outer=False), ["switch"]),
        ("CASE at an inner path", dict(ctype="CASE", open_same=False, any_cases=True, same=False, outer=False), ["open"]),
        ("CASE at an outer path", dict(ctype="CASE", open_same=False, any_cases=True, same=False, outer=True), ["close-down", "switch"]),
        ("first CASE", dict(ctype="CASE", open_same=False, any_cases=False, same=False, outer=False, state_nonempty=False), ["open"]),
        ("ELSE with an open block at its path", dict(ctype="ELSE", open_same=True, any_cases=True, same=True, outer=False), ["switch"]),
        ("ELSE without an open block at its path", dict(ctype="ELSE", open_same=False, any_cases=True, same=False, outer=False), ["raise"]),
        ("ELSE after everything was closed", dict(ctype="ELSE", open_same=False, any_cases=True, same=False, outer=False, state_nonempty=False), ["raise"]),
        ("END closing the open block", dict(ctype="END", open_same=True, any_cases=True, same=True, outer=False), ["close", "return"]),
        ("END at another path", dict(ctype="END", open_same=False, any_cases=True, same=False, outer=False), ["raise"]),
        ("END without any block", dict(ctype="END", open_same=False, any_cases=False, same=False, outer=False, state_nonempty=False), ["raise"]),
    ]
    for name, kw, want in cells:
        h = Ladder(**kw)
        try:
            run_block(top[0].body, h)
        except Unrecognised as e:
            ctx.unrecognised(BR, "BranchingList.solve_case", f"ladder cell {name}", str(e))
            continue
        got = [a for a in h.act]
        ctx.check(got == want, BR, "BranchingList.solve_case", f"ladder cell: {name}", detail=got, expected=want)
    # primitives
    for m, want in (("_close_branch", ["self.state.pop()"]),):
        f = ctx.fn(BR, f"BranchingList.{m}")
        got = [norm(s) for s in K.body_nodoc(f)]
        ctx.form(got == want, BR, f"BranchingList.{m}", "closing pops the innermost open block", detail=got)
    f = ctx.fn(BR, "BranchingList._open_branch")
    ctx.form("self.state.append(branch_id)" in norm(f), BR, "BranchingList._open_branch", "opening pushes a new block")
    f = ctx.fn(BR, "BranchingList._switch_case")
    ctx.form("self.branches[branch_id].cases.append(case_id)" in norm(f), BR, "BranchingList._switch_case", "switching appends the clause to the innermost block")


def r4_close_before_skip(ctx):
    fn, lp = _loop(ctx)
    calls = [c for c in ast.walk(lp) if isinstance(c, ast.Call) and norm(c.func) == "target.branching.close_by_indent"]
    skips = [c for c in ast.walk(lp) if isinstance(c, ast.Call) and norm(c.func) == "target.branching.false_case"]
    if len(calls) != 1 or not skips:
        if not calls:
            ctx.violated(DIP, "DIP.parse", "blocks left by de-indentation are closed before the skip test", detail="no closing step in the parse loop",
                         expected="an unselected clause closed only by indentation must not swallow the following lines")
        else:
            ctx.unrecognised(DIP, "DIP.parse", "closing step", f"{len(calls)} close_by_indent calls")
        return
    c = calls[0]
    first_skip = min(skips, key=lambda x: (x.lineno, x.col_offset))
    ctx.check((c.lineno, c.col_offset) < (first_skip.lineno, first_skip.col_offset), DIP, "DIP.parse",
              "closing by indentation happens before the first skip test of the line")
    st = c
    while not isinstance(st, ast.stmt):
        st = st._parent
    guard = st._parent if isinstance(st._parent, ast.If) else None
    in_loop_top = (guard in lp.body) if guard is not None else (st in lp.body)
    what = "the closing step is not nested under the skip test or the node kind chain"
    anc, under_skip = st._parent, False
    while anc is not None and anc is not lp:
        if isinstance(anc, ast.If) and "false_case" in norm(anc.test):
            under_skip = True
        anc = getattr(anc, "_parent", None)
    if under_skip:
        ctx.violated(DIP, "DIP.parse", what, detail="close_by_indent is reached only through a test of false_case()",
                     expected="the blocks a line has left are closed before it is asked whether the line is skipped")
    else:
        ctx.form(in_loop_top, DIP, "DIP.parse", what)
    # the lines excluded from closing are exactly those excluded from the hierarchy
    reg = [x for x in ast.walk(lp) if isinstance(x, ast.Call) and norm(x.func) == "target.hierarchy.register"]
    excl_h = norm(reg[0].args[1]) if reg and len(reg[0].args) > 1 else None
    if guard is None:
        ctx.holds(DIP, "DIP.parse", "every line closes the blocks it has left")
    else:
        t = guard.test
        ok_shape = isinstance(t, ast.Compare) and len(t.ops) == 1 and isinstance(t.ops[0], ast.NotIn) and norm(t.left) == "node.keyword"
        if not ok_shape:
            ctx.unrecognised(DIP, "DIP.parse", "closing guard", norm(t))
        else:
            excl_c = norm(t.comparators[0])
            sets = {}
            cls = ctx.repo.cls(DIP, "DIP")
            mod = ctx.repo.module(DIP)
            base = {}
            for nm in ("nodes_special", "nodes_properties", "nodes_hierarchy"):
                r = ctx.repo.class_attr(mod, cls, nm)
                base[nm] = Evaluator(ctx.repo, mod).ev(r[1]) if r else None
            init = ctx.fn(DIP, "DIP.__init__")
            for a in ast.walk(init):
                if isinstance(a, ast.Assign) and norm(a.targets[0]).startswith("self.nodes_"):
                    try:
                        sets[norm(a.targets[0])] = Evaluator(ctx.repo, mod, {}).ev(_subst_self(a.value, base))
                    except AnalysisError:
                        pass
            sc, sh = sets.get(excl_c), sets.get(excl_h)
            if sc is None or sh is None:
                ctx.unrecognised(DIP, "DIP.parse", "closing guard", f"cannot evaluate {excl_c} / {excl_h}")
            else:
                _named_kinds_close(ctx, sc)
                ctx.check(set(sc) == set(sh), DIP, "DIP.parse", "every line kind that takes part in the hierarchy also closes the blocks it has left",
                          detail={"excluded_from_closing": sorted(sc), "excluded_from_hierarchy": sorted(sh)},
                          expected="the same exclusion list (a group header de-indents like any other node)")
    arg2 = norm(c.args[1]) if len(c.args) > 1 else None
    ctx.form(arg2 == "node.keyword == 'case'", DIP, "DIP.parse", "a clause keyword at the clause indent switches instead of closing", detail=arg2)
    # closing condition table
    f = ctx.fn(BR, "BranchingList.close_by_indent")
    wl = [s for s in K.body_nodoc(f) if isinstance(s, ast.While)]
    if len(wl) != 1 or norm(wl[0].test) != "self.state":
        kind = "If" if any(isinstance(s, ast.If) and "self.state" in norm(s.test) for s in K.body_nodoc(f)) else "?"
        if kind == "If":
            ctx.violated(BR, "BranchingList.close_by_indent", "closing is a loop over the open blocks", detail="single test",
                         expected="a line may leave several nested blocks at once")
        else:
            ctx.unrecognised(BR, "BranchingList.close_by_indent", "closing loop", "while self.state not found")
        return
    ctx.holds(BR, "BranchingList.close_by_indent", "closing is a loop over the open blocks")
    w = wl[0]
    ifs = [s for s in w.body if isinstance(s, ast.If)]
    ind = [norm(s) for s in w.body if isinstance(s, ast.Assign)]
    ctx.form(ind == ["indent = self.cases[self._get_case_id()].indent"], BR, "BranchingList.close_by_indent", "compares with the indent of the innermost open clause", detail=ind)
    if len(ifs) != 1:
        ctx.unrecognised(BR, "BranchingList.close_by_indent", "closing condition", "single if/else not found")
        return

    class H(Handler):
        def __init__(self, rel, clause):
            super().__init__()
            self.rel, self.clause = rel, clause
            self.act = None

        def test(self, node):
            if isinstance(node, ast.Compare) and len(node.ops) == 1 and {norm(node.left), norm(node.comparators[0])} == {"node.indent", "indent"}:
                a, b = ({"lt": 0, "eq": 1, "gt": 2}[self.rel], 1)
                if norm(node.left) == "indent":
                    a, b = b, a
                return {ast.Lt: a < b, ast.LtE: a <= b, ast.Eq: a == b, ast.Gt: a > b, ast.GtE: a >= b, ast.NotEq: a != b}.get(type(node.ops[0]))
            if norm(node) == "clause":
                return self.clause
            return None

        def stmt(self, node):
            if norm(node) == "self._close_branch()":
                self.act = "close"
            else:
                raise Unrecognised(norm(node))
    for rel in ("lt", "eq", "gt"):
        for clause in (True, False):
            h = H(rel, clause)
            cell = f"closing cell indent {rel} clause-indent, line is clause={clause}"
            try:
                sig = run_block([st for st in w.body if not isinstance(st, ast.Assign)], h)     # the whole pass: `if stay: break` + close behind it as well
            except Unrecognised as e:
                ctx.unrecognised(BR, "BranchingList.close_by_indent", cell, str(e))
                continue
            got = "close" if h.act == "close" else ("stop" if sig == "break" else "?")
            want = "close" if (rel == "lt" or (rel == "eq" and not clause)) else "stop"
            if got == "?":
                ctx.form(False, BR, "BranchingList.close_by_indent", cell, detail="neither closes nor stops in this cell (as far as the table reads the loop body)")
            else:
                ctx.check(got == want, BR, "BranchingList.close_by_indent", cell, detail=got, expected=want)
    # the clause indent is recorded when the clause is registered
    sc = ctx.fn(BR, "BranchingList.solve_case")
    whatc = "every clause records the indentation of its keyword"
    ctors = [c for c in ast.walk(sc) if isinstance(c, ast.Call) and norm(c.func) == "Case"]
    if len(ctors) == 1 and ctors[0].keywords and not ctors[0].args and not any(k.arg is None for k in ctors[0].keywords):
        kw = {k.arg: norm(k.value) for k in ctors[0].keywords}
        if "indent" not in kw:
            # the field has a default (0): a clause registered without it claims to stand at the left margin, and
            # close_by_indent then compares every later line with indentation 0
            ctx.violated(BR, "BranchingList.solve_case", whatc, detail=f"Case({', '.join(sorted(kw))}) - no indent", expected="indent=node.indent")
        elif kw["indent"] == "node.indent" or kw["indent"].endswith(".indent"):
            ctx.holds(BR, "BranchingList.solve_case", whatc, detail=kw["indent"])
        else:
            ctx.form(False, BR, "BranchingList.solve_case", whatc, detail=kw["indent"])
    else:
        ctx.form("indent=node.indent" in norm(sc).replace(" ", ""), BR, "BranchingList.solve_case", whatc)


def _named_kinds_close(ctx, exempt):
    """Line kinds recognised after the name part (`parser.part_name` in the recogniser's step list) are named nodes:
    they stand in the indentation hierarchy, so a de-indented one ends the clauses it has left.  None of their keywords
    may be on the list of kinds exempt from closing."""
    fn = ctx.fn(DIP, "DIP._determine_node")
    steps = next((a.value for a in ast.walk(fn) if isinstance(a, ast.Assign) and norm(a.targets[0]) == "steps" and isinstance(a.value, ast.List)), None)
    what = "no named node kind is exempt from closing the clauses it has left"
    if steps is None:
        ctx.form(False, DIP, "DIP._determine_node", what, detail="step list not found")
        return
    names = [norm(e) for e in steps.elts]
    if "parser.part_name" not in names:
        ctx.form(False, DIP, "DIP._determine_node", what, detail="parser.part_name not in the step list")
        return
    after = [n.split(".")[0] for n in names[names.index("parser.part_name") + 1:] if n.endswith(".is_node")]
    mod = ctx.repo.module(DIP)
    kws = {}
    for cname in after:
        r = ctx.repo.resolve(mod, cname)
        try:
            cmod, cdef = r[0], r[2]
            kw = ctx.repo.class_attr(cmod, cdef, "keyword")
            kws[cname] = Evaluator(ctx.repo, cmod).ev(kw[1])
        except Exception:
            kws[cname] = None
    if not after or None in kws.values():
        ctx.form(False, DIP, "DIP._determine_node", what, detail={"classes": after, "keywords": kws})
        return
    bad = sorted(set(exempt) & set(kws.values()))
    if bad:
        ctx.violated(DIP, "DIP", what, detail={"exempt": sorted(exempt), "named kinds": sorted(set(kws.values()))}, expected=f"{bad} not exempt")
    else:
        ctx.holds(DIP, "DIP", what, detail=sorted(set(kws.values())))


def _subst_self(node, base):
    """self.nodes_special + self.nodes_properties -> literal lists"""
    import copy

    class T(ast.NodeTransformer):
        def visit_Attribute(self, n):
            if isinstance(n.value, ast.Name) and n.value.id == "self" and n.attr in base and base[n.attr] is not None:
                return ast.List(elts=[ast.Constant(value=v) for v in base[n.attr]], ctx=ast.Load())
            return self.generic_visit(n)
    return T().visit(copy.deepcopy(node))


def r5_marker_stripping(ctx):
    """Clause numbers are drawn from an unbounded counter, so the pattern that strips the internal `@<n>.` markers
    from node names must accept numbers of any length (regex AST of the literal pattern)."""
    import re._parser as _rp
    import warnings
    fn = ctx.fn("src/scinumtools/dip/nodes/node_base.py", "BaseNode.clean_name")
    pat = None
    for a in ast.walk(fn):
        if isinstance(a, ast.Call) and dotted_name(a.func) == "re.sub" and a.args:
            src = a.args[0]
            if isinstance(src, ast.Name):
                asg = [x.value for x in ast.walk(fn) if isinstance(x, ast.Assign) and norm(x.targets[0]) == src.id]
                src = asg[-1] if asg else src
            try:
                pat = Evaluator(ctx.repo, ctx.repo.module("src/scinumtools/dip/nodes/node_base.py")).ev(src)
            except AnalysisError:
                pat = None
    if not isinstance(pat, str):
        ctx.unrecognised("src/scinumtools/dip/nodes/node_base.py", "BaseNode.clean_name", "marker pattern", "pattern of the marker substitution is not a literal")
        return
    with warnings.catch_warnings():
        warnings.simplefilter("ignore")
        try:
            tree = _rp.parse(pat)
        except Exception as e:
            ctx.unrecognised("src/scinumtools/dip/nodes/node_base.py", "BaseNode.clean_name", "marker pattern", f"does not parse: {e}")
            return
    digit_items = []
    for op, av in tree:
        name = str(op)
        if name in ("MAX_REPEAT", "MIN_REPEAT"):
            lo, hi, sub = av
            if any(str(o) in ("IN", "CATEGORY") or (str(o) == "LITERAL" and chr(v).isdigit()) for o, v in sub):
                digit_items.append((lo, hi))
        elif name == "IN" and any(str(o) == "CATEGORY" and "DIGIT" in str(v) or str(o) == "RANGE" and v == (48, 57) for o, v in av):
            digit_items.append((1, 1))
        elif name == "CATEGORY" and "DIGIT" in str(av):
            digit_items.append((1, 1))
    if len(digit_items) != 1:
        ctx.unrecognised("src/scinumtools/dip/nodes/node_base.py", "BaseNode.clean_name", "marker pattern", f"digit part of {pat!r} not identified")
        return
    lo, hi = digit_items[0]
    unbounded = str(hi) in ("MAXREPEAT", "4294967295") or (isinstance(hi, int) and hi >= 1000)
    ctx.check(lo <= 1 and unbounded, "src/scinumtools/dip/nodes/node_base.py", "BaseNode.clean_name", "clause markers of any number are stripped from node names",
              detail={"pattern": pat, "digits": f"{lo}..{hi}"}, expected="[0-9]+ (clause numbers grow without bound: the 10th clause of a text is @10)")
    bl = ctx.fn(BR, "BranchingList.register_case")
    ctx.form("self.num_cases += 1" in norm(bl) and "return self.num_cases" in norm(bl), BR, "BranchingList.register_case", "clause numbers come from an increasing counter")


def _clause_keyword_patterns(ctx):
    """The line parser recognises `<path>@case` with one pattern and `<path>@else` / `<path>@end` with another.  A block
    opened under a path has to be continued and closed under the same path, so every path prefix the first pattern
    takes is taken by the second (decided on the two regular expressions, over a frozen table of prefixes)."""
    import re as _re
    from ..literal import Evaluator
    rel = "src/scinumtools/dip/nodes/parser.py"
    fn = ctx.fn(rel, "Parser.kwd_case")
    mod = ctx.repo.module(rel)
    pats = []
    for c in ast.walk(fn):
        if isinstance(c, ast.Call) and dotted_name(c.func) in ("re.match", "re.compile") and c.args:
            try:
                pats.append(Evaluator(ctx.repo, mod).ev(c.args[0]))
            except AnalysisError:
                pats.append(None)
    case = [p_ for p_ in pats if isinstance(p_, str) and "@case" in p_]
    other = [p_ for p_ in pats if isinstance(p_, str) and "@else" in p_ and "@end" in p_]
    if len(case) != 1 or len(other) != 1:
        ctx.form(False, rel, "Parser.kwd_case", "the two clause-keyword patterns are literals", detail=[str(p_)[:60] for p_ in pats])
        return
    rc, ro = _re.compile(case[0]), _re.compile(other[0])
    bad = []
    for prefix in ("", "a.", "group.sub.", "x-axis.", "b_c.d2.", "Plant-1.zone_b."):
        if rc.match(prefix + "@case true"):
            for kw in ("@else", "@end"):
                m = ro.match(prefix + kw)
                if not m or m.group(0) != prefix + kw:
                    bad.append(f"{prefix}@case is recognised, {prefix}{kw} is not")
    ctx.check(not bad, rel, "Parser.kwd_case", "every path that can open a block (`path@case`) can continue and close it (`path@else`, `path@end`)",
              detail=bad or None, expected="the same path characters in both patterns")


def r6_fresh_clause_state(ctx):
    """The list of open blocks and the clause records live in the environment.  Every parse works on a deep copy of
    the base environment (shared with C17.R2), so a block left open at the end of one text, or a clause selected in
    it, is not seen by the next text parsed from the same base."""
    from . import C17 as _C17
    _C17.deep_copy_clause(ctx, "src/scinumtools/dip/environment.py", "Environment.copy", "the working environment of a parse is a deep copy: open blocks and clause records are not shared between parses")
    fn = ctx.fn(DIP, "DIP.parse")
    tg = [a for a in ast.walk(fn) if isinstance(a, ast.Assign) and norm(a.targets[0]) == "target"]
    ctx.form(len(tg) == 1 and norm(tg[0].value) == "self.env.copy()", DIP, "DIP.parse", "the parse loop works on a copy of the base environment", detail=[norm(a.value) for a in tg])


RULES = [
    ("C15.R1", "in the parse loop, injection/parse and set/modify/append of non-case lines are guarded by the negative skip test; clause lines always reach the ladder", r1_skip_dominates),
    ("C15.R2", "skip test: loop over every open block; per block skip unless exactly one clause so far is true and the current one is it", r2_skip_test),
    ("C15.R3", "clause ladder table (switch / open / close-down+switch / close / raise); @else admitted only for an open block", r3_ladder),
    ("C15.R5", "internal clause markers @<n>. are stripped from node names for every n (regex AST of the literal pattern vs the unbounded clause counter)", r5_marker_stripping),
    ("C15.R4", "closing by indentation: before the first skip test, for every hierarchy-relevant line kind, in a loop, with condition indent < clause indent or (= and not a clause line)", r4_close_before_skip),
    ("C15.R6", "each parse starts from its own block/clause state: the working environment is a deep copy of the base (shared with C17.R2)", r6_fresh_clause_state),
]
