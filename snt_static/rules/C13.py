"""C13 — DIP node paths follow indentation and values are the literals written. Decided:
(R1) the parent stack: a *loop* pops while the node's indent is <= the top's, then pushes, and the
path joins all parents; (R2) the recogniser list respects the essential precedences (indent first,
directives before names, name before group/import/modification, type before the typed nodes), every
listed recogniser exists and each typed node answers to the keyword the type parser produces;
(R3) cursor discipline of the line parser: the text stripped is group 1 and group 1 spans the whole
pattern, every group index exists, sign/width group indices agree with the patterns and with the
integer/float node constructors; (R4) one parameter per node in order of first appearance: an
accepted node is either merged into the existing entry of the same path or appended, never both,
and the lookup covers every node of the target environment; (R5) an unterminated block is an error;
(R6) scalar literal table (true/false/none; everything else through the node's own type, integers
never through a double) and width/sign carried by every value constructor. NOT decided: the
literal grammar itself (float(), json), the composition of recognisers, tables."""
import ast

from ..literal import Evaluator
from ..model import AnalysisError, dotted_name, methods, norm, walk_no_nested
from ..predtable import Handler, Unrecognised, run_block
from ..regexast import group1_spans_all, group_count
from . import common as K

LEVEL_TEXT = ("static analysis (ast + regex ASTs): loop/comparator shape of the parent stack, partial order of the "
              "recogniser list, span and index discipline of all line-parser patterns, merge-or-append shape of the "
              "parse loop, decision table of the scalar caster")
LEVEL_NOTE = "trusted: Python's re semantics; float()/int()/json for the literal grammar; C15 for case handling"
TECHNIQUE = "ast structural rules + regex-AST span/index checks + decision tables (static analysis)"

DIP = "src/scinumtools/dip/dip.py"
PAR = "src/scinumtools/dip/nodes/parser.py"
HIE = "src/scinumtools/dip/lists/list_hierarchy.py"
NB = "src/scinumtools/dip/nodes/node_base.py"
ND = "src/scinumtools/dip/nodes/"


def r1_parent_stack(ctx):
    from . import C17 as _C17
    _C17.deep_copy_clause(ctx, 'src/scinumtools/dip/environment.py', 'Environment.copy', 'each parse starts from its own parent stack and node list: the working environment is a deep copy (shared with C17.R2)')
    _spawned_nodes_stand_where_the_parent_stood(ctx)
    fn = ctx.fn(HIE, "HierarchyList.register")
    loops = [n for n in ast.walk(fn) if isinstance(n, (ast.While, ast.If)) and "self.parents[-1].indent" in norm(n.test)]
    if len(loops) != 1:
        ctx.unrecognised(HIE, "HierarchyList.register", "de-indent handling", "no test against self.parents[-1].indent")
        return
    lp = loops[0]
    ctx.check(isinstance(lp, ast.While), HIE, "HierarchyList.register", "parents are popped in a loop (a line may leave several levels at once)",
              detail=type(lp).__name__, expected="While")
    cmp_ = [c for c in ast.walk(lp.test) if isinstance(c, ast.Compare) and len(c.ops) == 1]
    cmp_ = [c for c in cmp_ if {norm(c.left), norm(c.comparators[0])} == {"node.indent", "self.parents[-1].indent"}]
    if len(cmp_) != 1:
        ctx.unrecognised(HIE, "HierarchyList.register", "comparator", norm(lp.test))
        return
    c = cmp_[0]
    op = type(c.ops[0]).__name__
    if norm(c.left) == "self.parents[-1].indent":
        op = {"GtE": "LtE", "Gt": "Lt", "LtE": "GtE", "Lt": "Gt"}.get(op, op)
    ctx.check(op == "LtE", HIE, "HierarchyList.register", "a parent is left when the node's indent is <= the parent's (siblings replace each other)",
              detail=op, expected="LtE")
    ctx.form("self.parents" in norm(lp.test).split(" and ")[0] and [norm(s) for s in lp.body] == ["self.parents.pop()"], HIE,
             "HierarchyList.register", "the loop pops the stack and stops when it is empty")
    par = lp._parent
    body = par.body if hasattr(par, "body") else []
    after = [norm(s) for s in body[body.index(lp) + 1:]] if lp in body else []
    ctx.form(after == ["self.parents.append(Parent(node.indent, node.name))",
                       "node.name = Sign.SEPARATOR.join([parent.name for parent in self.parents])"], HIE, "HierarchyList.register",
             "then the node is pushed and its path is the join of all parents' names", detail=after)
    from ..flowexpr import consistent, paths
    pa = [a.arg for a in fn.args.args]
    nd, exd = (pa[1], pa[2]) if len(pa) == 3 else ("node", "excluded")
    ps = paths(fn)
    table, unk = {}, []
    for named in (True, False):
        for excl in (True, False):
            cs, u = consistent(ps, lambda e, _n=named, _x=excl: {f"{nd}.name is not None": _n, f"{nd}.name is None": not _n, f"{nd}.name": _n,
                                                                  f"{nd}.keyword not in {exd}": not _x, f"{nd}.keyword in {exd}": _x}.get(norm(e)))
            unk += u
            table[(named, excl)] = any(e.kind == "expr" and norm(e.resolved).startswith("self.parents.append(") for q in cs for e in q.events)
    if unk:
        ctx.unrecognised(HIE, "HierarchyList.register", "only named, hierarchy-relevant nodes enter the stack", f"test not decided: {sorted(set(unk))[:2]}")
    else:
        ctx.check(table == {(True, False): True, (True, True): False, (False, False): False, (False, True): False}, HIE,
                  "HierarchyList.register", "only named, hierarchy-relevant nodes enter the stack", detail={f"named={k[0]} excluded={k[1]}": v for k, v in table.items()})
    # DIP.parse registers every processed node before deciding what it is
    p = ctx.fn(DIP, "DIP.parse")
    s = norm(p)
    ctx.form("target.hierarchy.register(node, self.nodes_nohierarchy)" in s, DIP, "DIP.parse", "every line is registered with the property/special kinds excluded")


def _steps(ctx):
    fn = ctx.fn(DIP, "DIP._determine_node")
    for st in fn.body:
        if isinstance(st, ast.Assign) and norm(st.targets[0]) == "steps" and isinstance(st.value, ast.List):
            return fn, [norm(e) for e in st.value.elts]
    raise AnalysisError("steps list not found in DIP._determine_node")


def r2_recogniser_order(ctx):
    fn, steps = _steps(ctx)
    ctx.info["steps"] = steps
    ctx.floor("recogniser steps", len(steps), 20)

    def first(name):
        return steps.index(name) if name in steps else None

    def last(name):
        return len(steps) - 1 - steps[::-1].index(name) if name in steps else None
    directives = ["UnitNode.is_node", "SourceNode.is_node", "CaseNode.is_node", "OptionNode.is_node", "ConstantNode.is_node",
                  "FormatNode.is_node", "TagsNode.is_node", "DescriptionNode.is_node", "ConditionNode.is_node"]
    typed = ["BooleanNode.is_node", "IntegerNode.is_node", "FloatNode.is_node", "StringNode.is_node", "TableNode.is_node"]
    need = ["parser.part_indent", "parser.part_name", "parser.part_type", "GroupNode.is_node", "ModNode.is_node", "EmptyNode.is_node"] + directives + typed
    for n in need:
        ctx.check(n in steps, DIP, "DIP._determine_node", f"recogniser {n} is listed", detail=None)
    if any(n not in steps for n in need):
        return
    ind, nam, typ = first("parser.part_indent"), first("parser.part_name"), first("parser.part_type")
    ctx.check(all(ind < first(d) for d in directives + typed + ["GroupNode.is_node", "ModNode.is_node"]) and first("EmptyNode.is_node") < ind,
              DIP, "DIP._determine_node", "indentation is consumed before anything that reads a keyword or name (blank/comment lines first)", detail=steps[:3])
    ctx.check(all(last(d) < nam for d in directives), DIP, "DIP._determine_node", "directive and property recognisers come before the node name is parsed",
              detail={d: first(d) for d in directives if not last(d) < nam} or None)
    ctx.check(all(nam < first(x) for x in ("GroupNode.is_node", "ModNode.is_node")) and nam < last("ImportNode.is_node"), DIP, "DIP._determine_node",
              "the node name is parsed before group, import-into-group and modification")
    ctx.check(first("ModNode.is_node") < typ and all(typ < first(t) for t in typed), DIP, "DIP._determine_node",
              "the type keyword is parsed after the untyped forms and before every typed node")
    ctx.check(first("GroupNode.is_node") < first("ModNode.is_node"), DIP, "DIP._determine_node", "a bare name is a group before it can be a modification")
    # every listed recogniser exists
    mod = ctx.repo.module(DIP)
    for s in steps:
        if s.endswith(".is_node"):
            cname = s.split(".")[0]
            r = ctx.repo.resolve(mod, cname)
            ok = bool(r) and r[1] == "class" and ctx.repo.method(r[0], r[2], "is_node") is not None
            ctx.check(ok, DIP, "DIP._determine_node", f"{s} resolves to a class with is_node")
        elif s.startswith("parser."):
            ctx.check(ctx.repo.has_func(PAR, "Parser." + s.split(".")[1]), DIP, "DIP._determine_node", f"{s} exists")
    # dispatch loop
    loops = [n for n in fn.body if isinstance(n, ast.For) and norm(n.iter) == "steps"]
    ok = len(loops) == 1 and any(isinstance(x, ast.Break) for x in ast.walk(loops[0])) and any(isinstance(x, ast.Raise) for x in loops[0].orelse) \
        and "if node and parser.is_empty(): break" in norm(loops[0]).replace("\n", " ")
    ctx.form(ok, DIP, "DIP._determine_node", "steps run in list order until a node is recognised and the line is fully consumed; otherwise an error")
    # typed nodes answer to the keyword the type parser produces
    pt = ctx.fn(PAR, "Parser.part_type")
    types = None
    # the table is what the 4-tuple loop (keyword, pattern, precision, unsigned) ranges over: a local, a module constant or a literal
    for lp in [n for n in ast.walk(pt) if isinstance(n, ast.For) and isinstance(n.target, ast.Tuple) and len(n.target.elts) == 4]:
        src = lp.iter
        if isinstance(src, ast.Name):
            loc = [st.value for st in pt.body if isinstance(st, ast.Assign) and norm(st.targets[0]) == src.id]
            src = loc[-1] if loc else src
        try:
            types = [tuple(t) for t in Evaluator(ctx.repo, ctx.repo.module(PAR)).ev(src)]
        except (AnalysisError, TypeError):
            types = None
    if not types:
        ctx.unrecognised(PAR, "Parser.part_type", "type table", "types list not found")
        return
    kws = [t[0] for t in types]
    ctx.check(set(kws) == {"bool", "str", "table", "int", "float"}, PAR, "Parser.part_type", "type keywords", detail=kws)
    for cname, kw, f in (("BooleanNode", "bool", "node_boolean.py"), ("IntegerNode", "int", "node_integer.py"), ("FloatNode", "float", "node_float.py"),
                         ("StringNode", "str", "node_string.py"), ("TableNode", "table", "node_table.py")):
        fnn = ctx.fn(ND + f, f"{cname}.is_node")
        tests = [norm(i.test) for i in fnn.body if isinstance(i, ast.If)]
        ctx.check(f"parser.keyword == '{kw}'" in tests, ND + f, f"{cname}.is_node", f"recognises the keyword '{kw}'", detail=tests)
        c = ctx.repo.cls(ND + f, cname)
        ka = ctx.repo.class_attr(ctx.repo.module(ND + f), c, "keyword")
        ctx.check(ka is not None and norm(ka[1]) == f"'{kw}'", ND + f, cname, f"class keyword is '{kw}'")


def r3_cursor(ctx):
    mod = ctx.repo.module(PAR)
    c = ctx.repo.cls(PAR, "Parser")
    fn = ctx.fn(PAR, "Parser._strip")
    ctx.form([norm(s) for s in K.body_nodoc(fn)] == ["self.ccode = self.ccode[len(text):]"], PAR, "Parser._strip", "the cursor advances by the length of the given text")
    npat = nstrip = 0
    for mname, m in methods(c).items():
        env = {}
        for st in m.body:
            if isinstance(st, ast.Assign) and isinstance(st.targets[0], ast.Name):
                try:
                    v = Evaluator(ctx.repo, mod, env).ev(st.value)
                    if isinstance(v, str):
                        env[st.targets[0].id] = v
                except AnalysisError:
                    pass
        # match variables and their patterns
        pats = {}
        for node in ast.walk(m):
            if isinstance(node, ast.Assign) and len(node.targets) == 1 and isinstance(node.targets[0], ast.Name) and isinstance(node.value, ast.Call) \
                    and dotted_name(node.value.func) == "re.match" and len(node.value.args) == 2:
                try:
                    p = Evaluator(ctx.repo, mod, env).ev(node.value.args[0])
                except AnalysisError as e:
                    if mname != "part_type":
                        ctx.unrecognised(PAR, f"Parser.{mname}", f"pattern of {node.targets[0].id}", str(e))
                    continue
                pats.setdefault(node.targets[0].id, []).append((node, p))
        if mname == "part_type":
            continue
        for var, lst in pats.items():
            for node, p in lst:
                npat += 1
                ng = group_count(p)
                # uses of this match object: from this assignment up to the next assignment of the same variable
                nxt = [n2.lineno for n2, _ in lst if n2.lineno > node.lineno]
                hi = min(nxt) if nxt else 10 ** 9
                uses = [u for u in ast.walk(m) if isinstance(u, ast.Call) and isinstance(u.func, ast.Attribute) and u.func.attr == "group"
                        and norm(u.func.value) == var and node.lineno < u.lineno < hi and u.args and isinstance(u.args[0], ast.Constant)]
                bad = [u.args[0].value for u in uses if not (0 <= u.args[0].value <= ng)]
                ctx.check(not bad, PAR, f"Parser.{mname}", f"group indices used with /{p[:40]}/ exist", detail={"groups": ng, "bad": bad} if bad else ng)
                strips = [u for u in ast.walk(m) if isinstance(u, ast.Call) and norm(u.func) == "self._strip" and node.lineno < u.lineno < hi
                          and u.args and norm(u.args[0]).startswith(f"{var}.group(")]
                for sc in strips:
                    nstrip += 1
                    k = sc.args[0].args[0].value
                    ctx.check(k == 1 and group1_spans_all(p), PAR, f"Parser.{mname}", f"the text stripped after /{p[:40]}/ is exactly what was matched",
                              detail={"stripped_group": k, "group1_spans_pattern": group1_spans_all(p)},
                              expected="self._strip(m.group(1)) with group 1 spanning the whole pattern")
    ctx.floor("line-parser patterns", npat, 23)
    ctx.floor("cursor advances", nstrip, 21)
    ctx.info["patterns"] = npat
    # part_type: per-row patterns, group indices for sign / width
    pt = ctx.fn(PAR, "Parser.part_type")
    types = None
    for st in pt.body:
        if isinstance(st, ast.Assign) and norm(st.targets[0]) == "types":
            types = Evaluator(ctx.repo, mod).ev(st.value)
    if not types:
        return
    import re._parser as sp
    for kw, pat, precision, unsigned in types:
        ok = group1_spans_all(pat)
        ctx.check(ok, PAR, "Parser.part_type", f"type pattern of '{kw}' is spanned by group 1", detail=pat)
        ng = group_count(pat)
        need = 3 if (unsigned and precision) else (2 if precision else 1)
        ctx.check(ng == need, PAR, "Parser.part_type", f"'{kw}' pattern has the groups the branch reads", detail={"groups": ng, "read": need})

        def alts(p, gid):
            def find(items):
                for op, av in items:
                    if str(op) == "SUBPATTERN":
                        if av[0] == gid:
                            return av[3]
                        r = find(av[3])
                        if r is not None:
                            return r
                    elif str(op) in ("BRANCH",):
                        for b in av[1]:
                            r = find(b)
                            if r is not None:
                                return r
                return None
            g = find(list(sp.parse(p)))
            if g is None:
                return None
            out = set()
            for op, av in g:
                if str(op) == "BRANCH":
                    for b in av[1]:
                        out.add("".join(chr(a) for o, a in b if str(o) == "LITERAL"))
            return out
        if unsigned and precision:
            ctx.check(alts(pat, 2) == {"u", ""} and alts(pat, 3) == {"16", "32", "64", ""}, PAR, "Parser.part_type",
                      "integer: group 2 is the sign prefix, group 3 the width", detail={"g2": sorted(alts(pat, 2) or []), "g3": sorted(alts(pat, 3) or [])})
        elif precision:
            ctx.check(alts(pat, 2) == {"32", "64", "128", ""}, PAR, "Parser.part_type", "float: group 2 is the width", detail=sorted(alts(pat, 2) or []))
    src = norm(pt).replace("\n", " ")
    ctx.form("if unsigned and precision: self.dtype_prop.append(m.group(2)) self.dtype_prop.append(m.group(3)) elif precision: self.dtype_prop.append(m.group(2))" in src,
             PAR, "Parser.part_type", "integer stores (sign, width), float stores (width)")
    ii = ctx.fn(ND + "node_integer.py", "IntegerNode.__init__")
    s = norm(ii)
    ctx.check("unsigned, precision = self.dtype_prop" in s, ND + "node_integer.py", "IntegerNode.__init__", "reads (sign, width) in the order the parser stores them")
    fi = ctx.fn(ND + "node_float.py", "FloatNode.__init__")
    ctx.check("self.dtype_prop[0]" in norm(fi), ND + "node_float.py", "FloatNode.__init__", "reads the width from the first stored property")


def r4_merge_or_append(ctx):
    _prepend_order(ctx)
    fn = ctx.fn(DIP, "DIP.parse")
    loops = [n for n in ast.walk(fn) if isinstance(n, ast.For) and "target.nodes" in norm(n.iter) and n.orelse]
    cands = [l for l in loops if any("modify_value" in norm(x) for x in ast.walk(l))]
    if len(cands) != 1 and K.lookup_next(fn) is not None and "name == node.name" in K.lookup_next(fn)["test"]:
        ll = K.lookup_next(fn)
        full = ("target.nodes", "target.nodes.nodes")
        if ll["collection"] in full:
            ctx.holds(DIP, "DIP.parse", "the existing-node lookup covers every node of the target environment", detail=ll["collection"])
        else:
            ctx.unrecognised(DIP, "DIP.parse", "the existing-node lookup covers every node of the target environment", f"collection {ll['collection']}")
        ctx.check(not any("append" in norm(x) for s_ in ll["found"] for x in ast.walk(s_)), DIP, "DIP.parse",
                  "a node with an existing path is merged into that entry (first match) and not appended", detail=[norm(x)[:60] for x in ll["found"]])
        app = [norm(x) for x in ll["orelse"] if isinstance(x, ast.Expr)]
        ctx.check("target.nodes.append(node)" in app, DIP, "DIP.parse", "a node with a new path is appended (first-appearance order)", detail=app)
        writes = [norm(c) for c in ast.walk(fn) if isinstance(c, ast.Call) and isinstance(c.func, ast.Attribute) and norm(c.func.value) == "target.nodes"
                  and c.func.attr in ("insert", "sort", "reverse", "prepend", "pop", "remove", "clear", "extend")]
        ctx.check(not writes, DIP, "DIP.parse", "the parameter list is never reordered or pruned during parsing", detail=writes or None)
        return
    if len(cands) != 1:
        # lookup through an auxiliary index?
        idx = [n for n in ast.walk(fn) if isinstance(n, ast.If) and isinstance(n.test, ast.Compare) and isinstance(n.test.ops[0], ast.In)
               and norm(n.test.left) == "node.name" and any("modify_value" in norm(x) for x in ast.walk(n))]
        if len(idx) == 1:
            d = norm(idx[0].test.comparators[0])
            inits = [a for a in ast.walk(fn) if isinstance(a, ast.Assign) and norm(a.targets[0]) == d]
            covers = any("target.nodes" in norm(a.value) for a in inits)
            ctx.check(covers, DIP, "DIP.parse", "the existing-node lookup covers every node of the target environment",
                      detail={"index": d, "initialised_as": [norm(a.value) for a in inits]},
                      expected="nodes inherited from the base environment (target = self.env.copy()) must be found too")
        else:
            ctx.unrecognised(DIP, "DIP.parse", "merge-or-append", "lookup of an existing node with the same path not recognised")
        return
    lp = cands[0]
    ll = K.lookup_loop(lp)
    if ll is None or ll["test"] not in (f"{ll['elem']}.name == node.name", f"node.name == {ll['elem']}.name"):
        ctx.unrecognised(DIP, "DIP.parse", "merge-or-append", f"first-match lookup loop not recognised: for {norm(lp.target)} in {norm(lp.iter)}")
        return
    full = ("target.nodes", "target.nodes.nodes")      # NodeList delegates len/index/iteration to its .nodes list
    if ll["collection"] in full:
        ctx.holds(DIP, "DIP.parse", "the existing-node lookup covers every node of the target environment", detail=norm(lp.iter))
    elif ll["collection"].startswith(("target.nodes[", "target.nodes.nodes[")) or "reversed(" in ll["collection"] or "[" in ll["collection"]:
        ctx.violated(DIP, "DIP.parse", "the existing-node lookup covers every node of the target environment", detail=norm(lp.iter),
                     expected="every node of target.nodes, first to last")
    else:
        ctx.unrecognised(DIP, "DIP.parse", "the existing-node lookup covers every node of the target environment", f"collection {ll['collection']}")
    found = ll["found"]
    ok = bool(found) and isinstance(found[-1], ast.Break) and not any("append" in norm(x) for s_ in found for x in ast.walk(s_))
    ctx.check(ok, DIP, "DIP.parse", "a node with an existing path is merged into that entry (first match) and not appended",
              detail=[norm(x)[:60] for x in found])
    app = [norm(x) for x in lp.orelse if isinstance(x, ast.Expr)]
    ctx.check("target.nodes.append(node)" in app, DIP, "DIP.parse", "a node with a new path is appended (first-appearance order)", detail=app)
    # nothing else reorders target.nodes
    writes = [norm(c) for c in ast.walk(fn) if isinstance(c, ast.Call) and isinstance(c.func, ast.Attribute) and norm(c.func.value) == "target.nodes"
              and c.func.attr in ("insert", "sort", "reverse", "prepend", "pop", "remove", "clear", "extend")]
    ctx.check(not writes, DIP, "DIP.parse", "the parameter list is never reordered or pruned during parsing", detail=writes or None)


def r5_blocks(ctx):
    fn = ctx.fn(DIP, "DIP._get_queue")
    inner = [w for w in ast.walk(fn) if isinstance(w, ast.While) and w.orelse]
    ok = len(inner) == 1 and any(isinstance(x, ast.Raise) for x in inner[0].orelse) and any(isinstance(x, ast.Break) for x in ast.walk(inner[0]))
    ctx.form(ok, DIP, "DIP._get_queue", "a block opened with triple quotes must be closed: running out of lines is an error",
              detail=None if ok else "while...else raise not found")
    s = norm(fn).replace("\n", " ")
    ctx.form("line['code'] += Sign.NEWLINE.join(block) + subline['code'].lstrip()" in s and "block.append(subline['code'])" in s, DIP,
             "DIP._get_queue", "block lines are joined with newlines and appended to the opening line")


class BoolCast(Handler):
    def __init__(self, kind):
        super().__init__()
        self.kind = kind
        self.result = None

    def test(self, node):
        s = norm(node)
        t = {"isinstance(value, BooleanType)": self.kind == "BooleanType", "isinstance(value, (bool, np.bool_))": self.kind == "bool",
             "value == Keyword.TRUE": self.kind == "TRUE", "value == Keyword.FALSE": self.kind == "FALSE"}
        return t.get(s)

    def stmt(self, node):
        if isinstance(node, ast.Assign) and norm(node.targets[0]) == "value":
            self.result = norm(node.value)
        elif isinstance(node, ast.Raise):
            self.result = "raise"
        else:
            raise Unrecognised(norm(node))


def r6_scalar_literals(ctx):
    _literal_fields(ctx)
    _raw_empty_table(ctx)
    _text_cut_as_written(ctx)
    K.escape_marks_removed(ctx)      # a quoted value with escaped quotes is the text as written
    _blank_line_cells(ctx)
    _value_pattern(ctx)
    fn = ctx.fn(NB, "BaseNode.cast_value")
    boolif = [n for n in ast.walk(fn) if isinstance(n, ast.If) and norm(n.test) == "self.keyword == 'bool'"]
    if len(boolif) != 1:
        ctx.unrecognised(NB, "BaseNode.cast_value", "boolean branch", "`if self.keyword == 'bool'` not found")
    else:
        want = {"BooleanType": None, "bool": "BooleanType(value)", "TRUE": "BooleanType(True)", "FALSE": "BooleanType(False)", "other": "raise"}
        for kind, w in want.items():
            h = BoolCast(kind)
            try:
                run_block(boolif[0].body, h)
            except Unrecognised as e:
                ctx.unrecognised(NB, "BaseNode.cast_value", f"boolean literal cell {kind}", str(e))
                continue
            ctx.check(h.result == w, NB, "BaseNode.cast_value", f"boolean literal cell {kind}", detail=h.result, expected=w)
        other = boolif[0].orelse
        calls = [norm(c) for st in other for c in ast.walk(st) if isinstance(c, ast.Call) and c.args and norm(c.args[0]) in ("value", "float(value)", "int(value)")]
        through_double = [c for c in calls if c.startswith(("float(", "int(float(", "self.dtype(float("))]
        ctx.check(not through_double, NB, "BaseNode.cast_value", "a scalar literal is cast by the node's own type, never through a double",
                  detail=through_double or calls, expected="self.dtype(value) (an int literal above 2**53 would be rounded by float())")
        ctx.form("value = self.dtype(value)" in [norm(x) for st in other for x in ast.walk(st) if isinstance(x, ast.Assign)], NB,
                 "BaseNode.cast_value", "other scalars are cast with the node's own type")
    s = norm(fn).replace("\n", " ")
    # the keyword `none` (exactly, lower case) and None denote a missing value; any other text is a literal as written
    pv_ = fn.args.args[1].arg if len(fn.args.args) > 1 else "value"
    gates = [i for i in ast.walk(fn) if isinstance(i, ast.If) and len(i.body) == 1 and norm(i.body[0]) == f"{pv_} = None"]
    whatn = "none keyword and None denote a missing value"
    if len(gates) != 1:
        ctx.form(False, NB, "BaseNode.cast_value", whatn, detail=f"{len(gates)} gates that set the value to None")
    else:
        for cellv, want_ in ((None, True), ("none", True), ("None", False), ("NONE", False), ("nonetheless", False), ("abc", False), ("", False)):
            got_ = K.concrete_truth(gates[0].test, {pv_: cellv, "Keyword.NONE": "none", f"np.isscalar({pv_})": True, f"isinstance({pv_}, str)": isinstance(cellv, str)})
            cl = f"{whatn}: literal {cellv!r} is {'missing' if want_ else 'kept as written'}"
            if got_ is None:
                ctx.form(False, NB, "BaseNode.cast_value", cl, detail=norm(gates[0].test)[:100])
            elif got_ == want_:
                ctx.holds(NB, "BaseNode.cast_value", cl)
            else:
                ctx.violated(NB, "BaseNode.cast_value", cl, detail=norm(gates[0].test)[:120], expected=f"np.isscalar({pv_}) and {pv_} in (None, Keyword.NONE)")
    # width / sign carried by every constructor of the typed value
    for f, cname, tname, kws in (("node_integer.py", "IntegerNode", "IntegerType", {"precision": "self.precision", "unsigned": "self.unsigned"}),
                                 ("node_float.py", "FloatNode", "FloatType", {"precision": "self.precision"})):
        sv = ctx.fn(ND + f, f"{cname}.set_value")
        calls = [c for c in ast.walk(sv) if isinstance(c, ast.Call) and dotted_name(c.func) == tname]
        ctx.floor(f"{tname} constructions in {cname}.set_value", len(calls), 2, file=ND + f)
        for c in calls:
            kw = {k.arg: norm(k.value) for k in c.keywords}
            unit = norm(c.args[1]) if len(c.args) > 1 else kw.get("unit")
            ctx.check(all(kw.get(k) == v for k, v in kws.items()) and unit == "self.units_raw", ND + f, f"{cname}.set_value",
                      f"value constructor carries unit and {'/'.join(kws)}: {norm(c)[:50]}", detail=kw, expected=dict(kws, unit="self.units_raw"))


def _literal_fields(ctx):
    """BaseNode.__init__ takes the parsed literal over from the line parser.  The raw value may be the empty string
    (`s str = ""`), zero digits never occur, so a guard on its truth value drops a literal that was written."""
    from ..truthy import bare_truth_uses
    fn = ctx.fn(NB, "BaseNode.__init__")
    hits = bare_truth_uses(fn, lambda t: t.endswith(".value_raw") or t == "value_raw")
    guarded = []
    for i in [x for x in ast.walk(fn) if isinstance(x, ast.If)]:
        for st in ast.walk(i):
            if isinstance(st, ast.Assign) and any(isinstance(t, ast.Subscript) and norm(t.slice) == "'value_raw'" for t in st.targets):
                guarded.append(norm(i.test))
    what = "the parsed raw value is taken over whatever it is (an empty quoted string is a value)"
    if hits or any("value_raw" in g and " is " not in g for g in guarded):
        ctx.violated(NB, "BaseNode.__init__", what, detail={"truth tests": [h[1] for h in hits], "guards of the copy": guarded},
                     expected="kwargs['value_raw'] = parser.value_raw (unconditionally) or a test against None")
    else:
        stores = [norm(st.value) for st in ast.walk(fn) if isinstance(st, ast.Assign) and any(isinstance(t, ast.Subscript) and norm(t.slice) == "'value_raw'" for t in st.targets)]
        ctx.form(bool(stores), NB, "BaseNode.__init__", what, detail=stores)


def _text_cut_as_written(ctx):
    """add_string / add_file cut the text into lines at newlines and drop whole blank lines at both ends; nothing is
    removed from the text itself.  A strip() of the whole text before the cut also removes the indentation of the first
    line and with it the line's place in the hierarchy."""
    n = 0
    for q in ("DIP.add_string", "DIP.add_file"):
        fn = ctx.fn(DIP, q)
        what = "the source text is cut into lines as written (no whitespace is stripped from the text as a whole)"
        cuts = [c for c in ast.walk(fn) if isinstance(c, ast.Call) and isinstance(c.func, ast.Attribute) and c.func.attr in ("split", "splitlines")
                and (c.func.attr == "splitlines" or (len(c.args) == 1 and norm(c.args[0]) in ("Sign.NEWLINE", "'\\n'")))]
        if not cuts:
            ctx.form(False, DIP, q, what, detail="no split at newlines found")
            continue
        for c in cuts:
            n += 1
            stripped = [norm(x) for x in ast.walk(c.func.value) if isinstance(x, ast.Call) and isinstance(x.func, ast.Attribute) and x.func.attr in ("strip", "lstrip")
                        and not x.args]
            if stripped:
                ctx.violated(DIP, q, what, detail=stripped[0][:100], expected="only whole blank lines at both ends are dropped; the first line keeps its indentation")
            else:
                ctx.holds(DIP, q, what, detail=norm(c)[:80])
    ctx.floor("text cuts", n, 2, file=DIP)


def _spawned_nodes_stand_where_the_parent_stood(ctx):
    """A table or an import is not registered in the hierarchy itself: the nodes its parse() hands back (columns, imported
    copies) take its place, so they stand at *its* indentation - one level deeper and HierarchyList.register keeps a
    preceding sibling on the parent stack (`run / steps / output table` gives run.steps.output.time).  Every function
    of the node classes that writes the indent of another node is looked at: the written value is the spawning
    node's own indent; an offset or another node's indent is the violation."""
    what = "nodes spawned by a table / an import stand at the indentation of the line that spawned them"
    n = 0
    for rel in ctx.repo.all_py("src/scinumtools/dip/nodes"):
        try:
            mod = ctx.repo.module(rel)
        except Exception:
            continue
        for cls in [c for c in mod.tree.body if isinstance(c, ast.ClassDef)]:
            for mname, fn in methods(cls).items():
                for a in walk_no_nested(fn):
                    if not isinstance(a, ast.Assign):
                        continue
                    for t in a.targets:
                        if isinstance(t, ast.Attribute) and t.attr == "indent" and not (isinstance(t.value, ast.Name) and t.value.id == "self"):
                            n += 1
                            v = norm(a.value)
                            if v == "self.indent":
                                ctx.holds(rel, f"{cls.name}.{mname}", what, detail=norm(a))
                            elif isinstance(a.value, ast.BinOp) and "self.indent" in v and any(isinstance(x, ast.Constant) and isinstance(x.value, (int, float)) and x.value != 0 for x in ast.walk(a.value)):
                                ctx.violated(rel, f"{cls.name}.{mname}", what, detail=norm(a), expected=f"{norm(t)} = self.indent")
                            elif isinstance(a.value, ast.Constant):
                                ctx.violated(rel, f"{cls.name}.{mname}", what, detail=norm(a), expected=f"{norm(t)} = self.indent")
                            else:
                                ctx.unrecognised(rel, f"{cls.name}.{mname}", what, f"written value {v[:80]}")
    ctx.floor("indent writers of spawned nodes", n, 2)


def _blank_line_cells(ctx):
    """A line made of blanks is a blank line: the test that ends a table header gives the same verdict for '' and for
    '   ' (and another one for a header line)."""
    from .common import concrete_truth
    TB = ND + "node_table.py"
    fn = ctx.fn(TB, "TableNode.parse")
    what = "a line of blanks ends the table header exactly as an empty line does"
    loops = [w for w in ast.walk(fn) if isinstance(w, ast.While) and any(isinstance(a, ast.Assign) and "lines.pop(0)" in norm(a.value) for a in w.body)]
    if not loops:
        ctx.form(False, TB, "TableNode.parse", what, detail="header loop not found")
        return
    w = loops[0]
    var = next(norm(a.targets[0]) for a in w.body if isinstance(a, ast.Assign) and "lines.pop(0)" in norm(a.value))
    brk = [i for i in w.body if isinstance(i, ast.If) and any(isinstance(b, ast.Break) for b in i.body)]
    if len(brk) != 1:
        ctx.form(False, TB, "TableNode.parse", what, detail="header end test not found")
        return
    cells = {repr(v): concrete_truth(brk[0].test, {var: v}) for v in ("", "   ", "a int")}
    if None in cells.values() or cells["''"] is not True or cells["'a int'"] is not False:
        ctx.form(False, TB, "TableNode.parse", what, detail={norm(brk[0].test): cells})
    elif cells["'   '"] is True:
        ctx.holds(TB, "TableNode.parse", what, detail=norm(brk[0].test))
    else:
        ctx.violated(TB, "TableNode.parse", what, detail={norm(brk[0].test): cells}, expected=f"{var}.strip() == ''")


def _raw_empty_table(ctx):
    """raw_empty(): the raw value is missing when it is None, or the empty text on a node that is not a string; the
    empty text on a string node is the literal \"\" that was written.  Decided as a truth table of the returned expression."""
    from ..flowexpr import paths, truth
    fn = ctx.fn(NB, "BaseNode.raw_empty")
    rets = [e.resolved for q in paths(fn) for e in q.events if e.kind == "return" and e.resolved is not None]
    what = "raw value missing = None, or '' on a non-string node ('' on a string node is a value)"
    if len(rets) != 1:
        ctx.form(False, NB, "BaseNode.raw_empty", what, detail=[norm(r) for r in rets][:2])
        return
    cells = {"None": dict(none=True, empty=False, isstr=False), "'' on str": dict(none=False, empty=True, isstr=True, kw=True),
             "'' on int": dict(none=False, empty=True, isstr=True, kw=False), "'abc' on str": dict(none=False, empty=False, isstr=True, kw=True),
             "'abc' on int": dict(none=False, empty=False, isstr=True, kw=False), "5 on int": dict(none=False, empty=False, isstr=False, kw=False)}
    want = {"None": True, "'' on str": False, "'' on int": True, "'abc' on str": False, "'abc' on int": False, "5 on int": False}
    bad, und = [], []
    for name, c in cells.items():
        def atom(e, _c=c):
            k = norm(e)
            t = {"self.value_raw is None": _c["none"], "self.value_raw is not None": not _c["none"], "isinstance(self.value_raw, str)": _c["isstr"],
                 "self.value_raw == ''": _c["empty"], "self.value_raw != ''": not _c["empty"], "self.value_raw": not (_c["none"] or _c["empty"]),
                 "len(self.value_raw) == 0": _c["empty"], "not self.value_raw": _c["none"] or _c["empty"]}
            if "kw" in _c:
                t.update({"self.keyword != 'str'": not _c["kw"], "self.keyword == 'str'": _c["kw"]})
            return t.get(k)
        v = truth(rets[0], atom)
        if v is None:
            und.append(name)
        elif v != want[name]:
            bad.append(f"{name}: {'missing' if v else 'a value'}")
    if bad:
        ctx.violated(NB, "BaseNode.raw_empty", what, detail=bad, expected={k: ("missing" if v else "a value") for k, v in want.items()})
    else:
        ctx.form(not und, NB, "BaseNode.raw_empty", what, detail={"undecided cells": und, "expression": norm(rets[0])[:120]})


def _value_pattern(ctx):
    """The pattern that reads a value takes a quoted text whole and a bare value up to the next blank or comment sign:
    `x str = abc#note` and `x str = abc #note` both give abc (decided on the literal pattern over a frozen table)."""
    import re as _re
    from ..literal import Evaluator
    rel = "src/scinumtools/dip/nodes/parser.py"
    fn = ctx.fn(rel, "Parser.part_value")
    mod = ctx.repo.module(rel)
    lit = []
    for c in ast.walk(fn):
        if isinstance(c, ast.Call) and dotted_name(c.func) == "re.match" and c.args:
            try:
                v = Evaluator(ctx.repo, mod).ev(c.args[0])
            except AnalysisError:
                v = None
            if isinstance(v, str) and '"""' in v:
                lit.append(v)
    if len(lit) != 1:
        ctx.form(False, rel, "Parser.part_value", "the literal-value pattern is found", detail=len(lit))
        return
    rx = _re.compile(lit[0])
    table = {"abc#note": "abc", "abc #note": "abc", "12.5e3#x": "12.5e3", "true # c": "true", '"a # b" # c': '"a # b"', "'x y'": "'x y'", "1e-3 cm": "1e-3"}
    bad = []
    for text, want in table.items():
        m = rx.match(text)
        got = m.group(1) if m else None
        if got != want and not (text.startswith('"a # b"')):      # the greedy quote is an oddity of the original, not judged here
            bad.append(f"{text!r} -> {got!r} (expected {want!r})")
    ctx.check(not bad, rel, "Parser.part_value", "a bare value ends at a blank or at the comment sign", detail=bad or None, expected="[^# ]+ for bare values")


def _prepend_order(ctx):
    """Nodes a table or an import expands into are put in front of the queue as a batch; the batch keeps its order
    (columns in header order, imported nodes in source order)."""
    from ..flowexpr import explore
    rel = "src/scinumtools/dip/lists/list_nodes.py"
    fn = ctx.fn(rel, "NodeList.prepend")
    what = "a prepended batch keeps its own order (table columns in header order)"
    pa = [a.arg for a in fn.args.args]
    if len(pa) != 2:
        ctx.form(False, rel, "NodeList.prepend", what, detail=pa)
        return
    b = pa[1]
    ex = explore(fn)
    stores = [norm(e.resolved) for q in ex.paths for e in q.events if e.kind == "store" and e.extra == "self.nodes"]
    loops = [lp for lp, _, _ in ex.iterations.values() if isinstance(lp, ast.For)]
    ins0 = [lp for lp in loops if any(isinstance(c, ast.Call) and norm(c.func) == "self.nodes.insert" and c.args and norm(c.args[0]) == "0" for c in ast.walk(lp))]
    if stores and all(x in (f"{b} + self.nodes", f"list({b}) + self.nodes", f"[*{b}, *self.nodes]") for x in stores) and not ins0:
        ctx.holds(rel, "NodeList.prepend", what)
    elif any(x in (f"{b}[::-1] + self.nodes", f"list(reversed({b})) + self.nodes", f"self.nodes + {b}") for x in stores):
        ctx.violated(rel, "NodeList.prepend", what, detail=stores, expected=f"{b} + self.nodes")
    elif ins0:
        it = norm(ins0[0].iter)
        if it == b:
            ctx.violated(rel, "NodeList.prepend", what, detail=f"for .. in {it}: self.nodes.insert(0, ..) puts the last element of the batch first", expected=f"{b} + self.nodes")
        else:
            ctx.form(it in (f"reversed({b})", f"{b}[::-1]"), rel, "NodeList.prepend", what, detail=it)
    else:
        ctx.form(False, rel, "NodeList.prepend", what, detail=stores)


RULES = [
    ("C13.R1", "parent stack: while-loop popping on indent <= top, then push, path = join of all parents", r1_parent_stack),
    ("C13.R2", "recogniser list: essential precedences, every recogniser exists, typed nodes answer to the parsed type keyword", r2_recogniser_order),
    ("C13.R3", "line-parser cursor discipline: stripped text = group 1 = whole pattern; group indices exist; sign/width indices agree with patterns and node constructors", r3_cursor),
    ("C13.R4", "merge-or-append: existing path => merged into the first matching entry, new path => appended; lookup covers the whole target environment; no reordering; a batch prepended to the queue keeps its order", r4_merge_or_append),
    ("C13.R5", "an unterminated triple-quoted block is an error", r5_blocks),
    ("C13.R6", "scalar literal table (true/false/none, own type otherwise, no integer through a double); width/sign/unit carried by every typed-value constructor; the raw literal is taken over without a truth test", r6_scalar_literals),
]
