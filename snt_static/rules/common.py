"""Small recognisers shared by the rule modules."""
import ast

from ..model import norm, walk_no_nested


def is_docstring(st):
    return isinstance(st, ast.Expr) and isinstance(st.value, ast.Constant) and isinstance(st.value.value, str)


def body_nodoc(fn):
    return [s for s in fn.body if not is_docstring(s)]


def list_ops(node, cls=None, _depth=0):
    """Buffer operations on self.left / self.right found under `node`:
    list of (buffer, end, kind) with end in front/back and kind in push/pop.  With `cls` (a ClassDef), calls
    self.<method>() of that class contribute the operations of the method body."""
    out = []
    for c in ast.walk(node):
        if cls is not None and _depth < 3 and isinstance(c, ast.Call) and isinstance(c.func, ast.Attribute) and isinstance(c.func.value, ast.Name) \
                and c.func.value.id == "self":
            m = next((st for st in cls.body if isinstance(st, ast.FunctionDef) and st.name == c.func.attr), None)
            if m is not None:
                out.extend(list_ops(m, cls, _depth + 1))
                continue
        if isinstance(c, ast.Call) and isinstance(c.func, ast.Attribute) and isinstance(c.func.value, ast.Attribute) \
                and isinstance(c.func.value.value, ast.Name) and c.func.value.value.id == "self" \
                and c.func.value.attr in ("left", "right"):
            buf, m = c.func.value.attr, c.func.attr
            a0 = c.args[0].value if c.args and isinstance(c.args[0], ast.Constant) else None
            if m == "append":
                out.append((buf, "back", "push"))
            elif m == "appendleft" or (m == "insert" and a0 == 0):
                out.append((buf, "front", "push"))
            elif m == "popleft" or (m == "pop" and a0 == 0):
                out.append((buf, "front", "pop"))
            elif m == "pop" and (not c.args or a0 == -1):
                out.append((buf, "back", "pop"))
            else:
                out.append((buf, "?", f"{m}({', '.join(norm(a) for a in c.args)})"))
    return out


def _subst_env(fn):
    """Straight-line environment: name -> canonical symbol for the get_left/get_right idiom."""
    env = {}
    for st in fn.body:
        if isinstance(st, ast.Assign) and len(st.targets) == 1:
            t, v = st.targets[0], st.value
            pairs = []
            if isinstance(t, ast.Tuple) and isinstance(v, ast.Tuple) and len(t.elts) == len(v.elts):
                pairs = list(zip(t.elts, v.elts))
            elif isinstance(t, ast.Name):
                pairs = [(t, v)]
            for tt, vv in pairs:
                if not isinstance(tt, ast.Name):
                    return None
                s = norm(vv)
                if s == "tokens.get_left()":
                    env[tt.id] = "L"
                elif s == "tokens.get_right()":
                    env[tt.id] = "R"
                else:
                    env[tt.id] = vv
    return env


def _canon(node, env, depth=0):
    """Canonical string of an expression with local names substituted."""
    if depth > 6:
        return None
    if isinstance(node, ast.Name):
        v = env.get(node.id)
        if isinstance(v, str):
            return v
        if isinstance(v, ast.AST):
            return _canon(v, env, depth + 1)
        return node.id
    if isinstance(node, ast.BinOp):
        a, b = _canon(node.left, env, depth), _canon(node.right, env, depth)
        if a is None or b is None:
            return None
        sym = {ast.Add: "+", ast.Sub: "-", ast.Mult: "*", ast.Div: "/", ast.Pow: "**"}.get(type(node.op))
        return None if sym is None else f"({a} {sym} {b})"
    if isinstance(node, ast.Call):
        if isinstance(node.func, ast.Attribute):
            recv = _canon(node.func.value, env, depth)
            args = [_canon(a, env, depth) for a in node.args]
            if recv is None or None in args or node.keywords:
                return None
            if norm(node.func) == "tokens.atom" and len(args) == 1:
                return f"atom({args[0]})"
            return f"{recv}.{node.func.attr}({', '.join(args)})"
        return None
    if isinstance(node, ast.Subscript) and norm(node.value) == "self.args" and isinstance(node.slice, ast.Constant):
        return f"A{node.slice.value}"
    if isinstance(node, ast.Attribute):
        s = norm(node)
        if s in ("np.e", "numpy.e", "math.e"):
            return "e"
        return s
    if isinstance(node, ast.Constant):
        return repr(node.value)
    return None


def _single_put_left(fn):
    calls = [s.value for s in fn.body if isinstance(s, ast.Expr) and isinstance(s.value, ast.Call)]
    others = [s for s in fn.body if not isinstance(s, (ast.Expr, ast.Assign)) and not is_docstring(s)]
    if others or len(calls) != 1 or norm(calls[0].func) != "tokens.put_left" or len(calls[0].args) != 1:
        return None
    return calls[0].args[0]


def binary_handler_form(fn):
    """operate_binary -> (kind, op, 'L', 'R') for put_left(L op R) / put_left(L.m(R))"""
    env = _subst_env(fn)
    arg = _single_put_left(fn)
    if env is None or arg is None:
        return None
    seen = 0
    while isinstance(arg, ast.Name) and isinstance(env.get(arg.id), ast.AST) and seen < 5:
        arg = env[arg.id]
        seen += 1

    def sym(n):
        c = _canon(n, env)
        return c if c in ("L", "R") else None
    if isinstance(arg, ast.BinOp):
        a, b = sym(arg.left), sym(arg.right)
        if a and b:
            return ("bin", type(arg.op).__name__, a, b)
    if isinstance(arg, ast.Compare) and len(arg.ops) == 1:
        a, b = sym(arg.left), sym(arg.comparators[0])
        if a and b:
            return ("cmp", type(arg.ops[0]).__name__, a, b)
    if isinstance(arg, ast.Call) and isinstance(arg.func, ast.Attribute) and len(arg.args) == 1:
        a, b = sym(arg.func.value), sym(arg.args[0])
        if a and b:
            return ("meth", arg.func.attr, a, b)
    return None


def args_handler_term(fn):
    env = _subst_env(fn)
    arg = _single_put_left(fn)
    if env is None or arg is None:
        return None
    return _canon(arg, env)


def _atom_ctor_arg(fn):
    body = body_nodoc(fn)
    if len(body) != 1 or not isinstance(body[0], ast.Return):
        return None
    v = body[0].value
    if isinstance(v, ast.Call) and isinstance(v.func, ast.Name) and len(v.args) == 1 and not v.keywords:
        return v.args[0]
    return None


def atom_binary_form(fn):
    arg = _atom_ctor_arg(fn)
    if arg is None:
        return None
    other = fn.args.args[1].arg if len(fn.args.args) > 1 else None

    def sym(n):
        s = norm(n)
        return "S" if s == "self.value" else ("O" if other and s == f"{other}.value" else None)
    if isinstance(arg, ast.BinOp):
        a, b = sym(arg.left), sym(arg.right)
        if a and b:
            return ("bin", type(arg.op).__name__, a, b)
    if isinstance(arg, ast.Compare) and len(arg.ops) == 1:
        a, b = sym(arg.left), sym(arg.comparators[0])
        if a and b:
            return ("cmp", type(arg.ops[0]).__name__, a, b)
    if isinstance(arg, ast.BoolOp) and len(arg.values) == 2:
        a, b = sym(arg.values[0]), sym(arg.values[1])
        if a and b:
            return ("bool", type(arg.op).__name__, a, b)
    return None


def atom_unary_term(fn):
    arg = _atom_ctor_arg(fn)
    if arg is None:
        return None
    if isinstance(arg, ast.UnaryOp) and norm(arg.operand) == "self.value" and isinstance(arg.op, ast.USub):
        return "(-V)"
    if isinstance(arg, ast.UnaryOp) and isinstance(arg.op, ast.Not):
        s = norm(arg.operand)
        if s in ("bool(self.value)", "self.value"):
            return "(not bool(V))"
    if isinstance(arg, ast.Call) and len(arg.args) == 1 and norm(arg.args[0]) == "self.value":
        f = norm(arg.func)
        for p in ("np.", "numpy.", "math."):
            if f.startswith(p):
                return f"{f[len(p):]}(V)"
    return None


# ---- lookup loops -------------------------------------------------------
def lookup_loop(loop):
    """Abstraction of a first-match lookup loop over a collection:

        for i in range(len(C)):            if C[i].K == V: <found...>; break
        for i, e in enumerate(C):          if e.K != V: continue
        for e in C:                            <found...>; break

    -> dict(collection=<src of C>, elem=<src of the element expression>, test=<positive test src>,
            found=[statements run on the first match], orelse=[...]) or None."""
    import ast as _ast
    from ..model import norm as _norm
    if not isinstance(loop, _ast.For):
        return None
    it, tg = loop.iter, loop.target
    coll = elem = None
    if isinstance(it, _ast.Call) and _norm(it.func) == "range" and len(it.args) == 1 and isinstance(it.args[0], _ast.Call) \
            and _norm(it.args[0].func) == "len" and isinstance(tg, _ast.Name):
        coll = _norm(it.args[0].args[0])
        elem = f"{coll}[{tg.id}]"
    elif isinstance(it, _ast.Call) and _norm(it.func) == "enumerate" and len(it.args) == 1 and isinstance(tg, _ast.Tuple) and len(tg.elts) == 2 \
            and all(isinstance(e, _ast.Name) for e in tg.elts):
        coll, elem = _norm(it.args[0]), tg.elts[1].id
    elif isinstance(tg, _ast.Name) and not isinstance(it, _ast.Call):
        coll, elem = _norm(it), tg.id
    if coll is None:
        return None
    body = [s for s in loop.body if not (isinstance(s, _ast.Expr) and isinstance(s.value, _ast.Constant))]
    if not body or not isinstance(body[0], _ast.If):
        return None
    first = body[0]
    t = first.test
    if len(first.body) == 1 and isinstance(first.body[0], _ast.Continue) and not first.orelse:
        # negative guard: the rest of the body is the found branch
        if isinstance(t, _ast.Compare) and len(t.ops) == 1 and isinstance(t.ops[0], _ast.NotEq):
            pos = f"{_norm(t.left)} == {_norm(t.comparators[0])}"
        elif isinstance(t, _ast.UnaryOp) and isinstance(t.op, _ast.Not):
            pos = _norm(t.operand)
        else:
            return None
        found = body[1:]
    elif len(body) == 1 and not first.orelse:
        pos, found = _norm(t), first.body
    else:
        return None
    return {"collection": coll, "elem": elem, "test": pos, "found": found, "orelse": loop.orelse, "loop": loop}


def first_claim_loop(fn):
    """`for T in UNIT_TYPES: if c := T(a, b): return <use of c>` followed (for-else or after the loop) by a raise.
    Decided on resolved paths: -> dict(iter=<src>, claim=<resolved claim call>, returns=[resolved returns when claimed],
    falls_through=bool (an unclaimed iteration continues), exhausted_raises=bool) or None."""
    import ast as _ast
    from ..flowexpr import consistent, explore
    from ..model import norm as _norm
    ex = explore(fn)
    loops = [v for v in ex.iterations.values() if isinstance(v[0], _ast.For)]
    if len(loops) != 1:
        return None
    lp, start, its = loops[0]
    if not isinstance(lp.target, _ast.Name):
        return None
    U = lp.target.id + "@loop1"
    claims = sorted({_norm(e.resolved) for q in its for e in q.events[start:] if e.kind == "test" and isinstance(e.resolved, _ast.Call)
                     and _norm(e.resolved.func) == U})
    if len(claims) != 1:
        return None
    claim = claims[0]
    yes, u1 = consistent(its, lambda e: True if _norm(e) == claim else None, start)
    no, u2 = consistent(its, lambda e: False if _norm(e) == claim else None, start)
    if u1 or u2 or not yes or not no:
        return None
    return {"iter": _norm(lp.iter), "claim": claim.replace(U, "T"),
            "returns": sorted({_norm(e.resolved).replace(U, "T") for q in yes for e in q.events[start:] if e.kind == "return"}),
            "claimed_all_return": all(q.status == "return" for q in yes),
            "falls_through": all(q.status in (None, "continue") for q in no),
            "exhausted_raises": all(q.status == "raise" for q in ex.paths if q.status != "return"),
            "returns_before_loop": sorted({_norm(e.resolved)[:80] for q in ex.paths if q.status == "return" and not any(e2.kind == "loop" for e2 in q.events)
                                           for e in q.events if e.kind == "return"})}


def lookup_next(fn):
    """`X = next((e for e in C if e.K == V), None)` followed by `if X is not None: <found> else: <orelse>`
    -> dict like lookup_loop (elem = X) or None."""
    import ast as _ast
    from ..model import norm as _norm
    for a in _ast.walk(fn):
        if not (isinstance(a, _ast.Assign) and len(a.targets) == 1 and isinstance(a.targets[0], _ast.Name) and isinstance(a.value, _ast.Call)
                and _norm(a.value.func) == "next" and len(a.value.args) == 2 and isinstance(a.value.args[0], _ast.GeneratorExp)
                and isinstance(a.value.args[1], _ast.Constant) and a.value.args[1].value is None):
            continue
        g = a.value.args[0]
        if len(g.generators) != 1 or len(g.generators[0].ifs) != 1 or not isinstance(g.generators[0].target, _ast.Name) or _norm(g.elt) != g.generators[0].target.id:
            continue
        x, e = a.targets[0].id, g.generators[0].target.id
        par = getattr(a, "_parent", None)
        body = getattr(par, "body", None)
        for blk in [b for b in (getattr(par, "body", None), getattr(par, "orelse", None)) if isinstance(b, list) and a in b]:
            i = blk.index(a)
            if i + 1 < len(blk) and isinstance(blk[i + 1], _ast.If) and _norm(blk[i + 1].test) in (f"{x} is not None", f"{x} is None"):
                nxt = blk[i + 1]
                found, orelse = (nxt.body, nxt.orelse) if _norm(nxt.test) == f"{x} is not None" else (nxt.orelse, nxt.body)
                import re as _re
                test = _re.sub(rf"\b{e}\b", x, _norm(g.generators[0].ifs[0]))
                return {"collection": _norm(g.generators[0].iter), "elem": x, "test": test, "found": found, "orelse": orelse, "loop": nxt, "first_match": True}
    return None


# ---------------------------------------------------------------- hidden module state (memo caches, registries)
_MUTATORS = {"append", "extend", "insert", "pop", "remove", "clear", "update", "setdefault", "popitem", "add", "discard", "sort", "reverse", "__setitem__"}
_CONTAINER_CALLS = {"list", "dict", "set", "collections.defaultdict", "defaultdict", "collections.OrderedDict", "OrderedDict", "collections.Counter", "Counter",
                    "collections.deque", "deque", "weakref.WeakValueDictionary", "WeakValueDictionary", "ParameterTable"}
_CACHE_DECORATORS = ("lru_cache", "cache", "cached_property", "functools.lru_cache", "functools.cache", "functools.cached_property", "CachedFunction")


def hidden_module_state(ctx, packages, allowed, why):
    """Who-may-write rule over module-level state of the given packages.

    A module-level name bound to a mutable container (literal, container constructor, comprehension) and written from
    inside a function - subscript store/delete, mutator call, `global` rebinding - is process-wide state that outlives
    whatever object produced it: a memo of values derived from the unit tables, a solver buffer, a registry.  `allowed`
    maps such a name to the set of qualified functions that may write it (one line of reason each, in the caller).  A
    memoising decorator on a function of these packages is the same state in another spelling.  Every other writer is a
    violation with the writer as evidence; the expected count of findings is zero, the floor counts the scanned modules."""
    from ..model import norm as _norm, dotted_name as _dn, qualname as _qn
    scanned = 0
    mods = []
    for pkg in packages:
        mods += ctx.repo.all_modules(pkg)
    containers = {}
    for mod in mods:
        scanned += 1
        for st in mod.tree.body:
            tg = st.targets if isinstance(st, ast.Assign) else ([st.target] if isinstance(st, ast.AnnAssign) and st.value is not None else [])
            for t in tg:
                if not isinstance(t, ast.Name):
                    continue
                v = st.value
                if isinstance(v, (ast.Dict, ast.List, ast.Set, ast.DictComp, ast.ListComp, ast.SetComp)) or (isinstance(v, ast.Call) and _dn(v.func) in _CONTAINER_CALLS):
                    containers[t.id] = mod.relpath
    findings = []
    for mod in mods:
        for fn in [x for x in ast.walk(mod.tree) if isinstance(x, (ast.FunctionDef, ast.AsyncFunctionDef))]:
            q = f"{mod.relpath}::{_qn(fn)}"
            for d in fn.decorator_list:
                dn = _dn(d.func) if isinstance(d, ast.Call) else _dn(d)
                if dn and (dn in _CACHE_DECORATORS or dn.split(".")[-1] in _CACHE_DECORATORS):
                    findings.append((mod.relpath, _qn(fn), f"memoising decorator @{dn}", dn))
            local = {a.arg for a in fn.args.posonlyargs + fn.args.args + fn.args.kwonlyargs}
            glob = {n for g in ast.walk(fn) if isinstance(g, ast.Global) for n in g.names}
            for x in ast.walk(fn):
                if isinstance(x, ast.Name) and isinstance(x.ctx, ast.Store) and x.id not in glob:
                    local.add(x.id)
            for x in ast.walk(fn):
                nm = None
                if isinstance(x, (ast.Subscript, ast.Attribute)) and isinstance(x.ctx, (ast.Store, ast.Del)) and isinstance(x.value, ast.Name):
                    nm, how = x.value.id, f"{_norm(x)} = ..."
                elif isinstance(x, ast.Call) and isinstance(x.func, ast.Attribute) and x.func.attr in _MUTATORS and isinstance(x.func.value, ast.Name):
                    nm, how = x.func.value.id, _norm(x)[:70]
                elif isinstance(x, ast.Name) and isinstance(x.ctx, ast.Store) and x.id in glob:
                    nm, how = x.id, f"global {x.id} rebound"
                if nm is None or nm in local and nm not in glob or nm not in containers:
                    continue
                if q in allowed.get(nm, ()) or _qn(fn) in allowed.get(nm, ()):
                    continue
                findings.append((mod.relpath, _qn(fn), f"writes module-level {nm} ({containers[nm]}): {how}", nm))
    # the same state one level down: a container in a class body is shared by every instance and outlives them all.
    # Written from a method through the class (Cls.x, cls.x, type(self).x, self.__class__.x), or through self while no
    # method ever binds self.x, it is a process-wide memo / registry like a module-level one.
    for mod in mods:
        for cls in [c for c in ast.walk(mod.tree) if isinstance(c, ast.ClassDef)]:
            cattrs = {}
            for st in cls.body:
                tg = st.targets if isinstance(st, ast.Assign) else ([st.target] if isinstance(st, ast.AnnAssign) and st.value is not None else [])
                for t in tg:
                    v = st.value
                    if isinstance(t, ast.Name) and (isinstance(v, (ast.Dict, ast.List, ast.Set, ast.DictComp, ast.ListComp, ast.SetComp)) or (isinstance(v, ast.Call) and _dn(v.func) in _CONTAINER_CALLS)):
                        cattrs[t.id] = st.lineno
            if not cattrs:
                continue
            fns = [x for x in cls.body if isinstance(x, (ast.FunctionDef, ast.AsyncFunctionDef))]
            bound = {t.attr for f_ in fns for a in ast.walk(f_) if isinstance(a, (ast.Assign, ast.AnnAssign, ast.AugAssign))
                     for t in (a.targets if isinstance(a, ast.Assign) else [a.target])
                     if isinstance(t, ast.Attribute) and isinstance(t.value, ast.Name) and t.value.id == "self"}
            for f_ in fns:
                for x in ast.walk(f_):
                    tgt = None
                    if isinstance(x, ast.Subscript) and isinstance(x.ctx, (ast.Store, ast.Del)) and isinstance(x.value, ast.Attribute):
                        tgt, how = x.value, f"{_norm(x)} = ..."
                    elif isinstance(x, ast.Call) and isinstance(x.func, ast.Attribute) and x.func.attr in _MUTATORS and isinstance(x.func.value, ast.Attribute):
                        tgt, how = x.func.value, _norm(x)[:70]
                    if tgt is None or tgt.attr not in cattrs:
                        continue
                    recv = _norm(tgt.value)
                    via_class = recv in (cls.name, "cls", "type(self)", "self.__class__")
                    via_self = recv == "self" and tgt.attr not in bound
                    if not (via_class or via_self):
                        continue
                    key = f"{cls.name}.{tgt.attr}"
                    if f"{cls.name}.{f_.name}" in allowed.get(key, ()):
                        continue
                    findings.append((mod.relpath, f"{cls.name}.{f_.name}", f"writes class-level {key} (a container in the class body, line {cattrs[tgt.attr]}): {how}", key))
    ctx.floor("modules scanned for hidden module-level state", scanned, 3)
    seen = set()
    for rel, q, what, nm in findings:
        if (rel, q, nm) in seen:
            continue
        seen.add((rel, q, nm))
        ctx.violated(rel, q, f"no process-wide state besides the registered tables: {why}", detail=what,
                     expected="state derived from the tables is recomputed, or owned by the object whose scope it belongs to")
    if not findings:
        ctx.holds("-", "-", f"no process-wide state besides the registered tables: {why}")
    return findings


def duplicate_dict_keys(ctx, relpaths, why):
    """A dict display that spells the same constant key twice keeps the later entry only: the earlier row of a table is
    lost without any error.  Scans every dict literal of the given modules; the expected count of findings is zero, the
    floor counts the literals scanned."""
    from ..model import norm as _norm
    n = 0
    for rel in relpaths:
        mod = ctx.repo.module(rel)
        for d in [x for x in ast.walk(mod.tree) if isinstance(x, ast.Dict)]:
            n += 1
            seen = {}
            for k in d.keys:
                if isinstance(k, ast.Constant):
                    key = (type(k.value).__name__, k.value)
                    if key in seen:
                        ctx.violated(rel, "<table>", f"no table row is shadowed by a second row with the same key ({why})",
                                     detail=f"key {k.value!r} at line {k.lineno} repeats line {seen[key]}: the first row is dropped silently", expected="every key once")
                    else:
                        seen[key] = k.lineno
    ctx.floor("dict literals scanned for duplicate keys", n, 1)
    ctx.holds("-", "-", f"scan for duplicate keys completed ({why})")


class Undecided(Exception):
    pass


_BUILTIN_TYPES = {"str": str, "int": int, "float": float, "bool": bool, "list": list, "tuple": tuple, "dict": dict, "bytes": bytes}


def concrete_value(expr, val):
    """Value of an expression under a valuation {source text of a sub-expression: python constant}; raises Undecided when
    the expression contains anything the valuation does not give and that is not a literal, comparison, boolean
    connective, isinstance over builtin types, len() or bool().  A finite decision table, not an execution: only the
    repository's *tests* are folded, over cells chosen by the rule."""
    k = norm(expr)
    if k in val:
        return val[k]
    if isinstance(expr, ast.Constant):
        return expr.value
    if isinstance(expr, (ast.Tuple, ast.List)):
        return tuple(concrete_value(e, val) for e in expr.elts)
    if isinstance(expr, ast.UnaryOp):
        v = concrete_value(expr.operand, val)
        if isinstance(expr.op, ast.Not):
            return not v
        if isinstance(expr.op, ast.USub) and isinstance(v, (int, float)):
            return -v
        raise Undecided(k)
    if isinstance(expr, ast.BoolOp):
        v = None
        for e in expr.values:
            v = concrete_value(e, val)
            if isinstance(expr.op, ast.And) and not v:
                return v
            if isinstance(expr.op, ast.Or) and v:
                return v
        return v
    if isinstance(expr, ast.IfExp):
        return concrete_value(expr.body if concrete_value(expr.test, val) else expr.orelse, val)
    if isinstance(expr, ast.Compare):
        left = concrete_value(expr.left, val)
        for op, r in zip(expr.ops, expr.comparators):
            right = concrete_value(r, val)
            try:
                if isinstance(op, ast.Eq): ok = left == right
                elif isinstance(op, ast.NotEq): ok = left != right
                elif isinstance(op, ast.Is): ok = left is right
                elif isinstance(op, ast.IsNot): ok = left is not right
                elif isinstance(op, ast.Lt): ok = left < right
                elif isinstance(op, ast.LtE): ok = left <= right
                elif isinstance(op, ast.Gt): ok = left > right
                elif isinstance(op, ast.GtE): ok = left >= right
                elif isinstance(op, ast.In): ok = left in right
                elif isinstance(op, ast.NotIn): ok = left not in right
                else: raise Undecided(k)
            except TypeError:
                raise Undecided(k + " (the comparison raises)")
            if not ok:
                return False
            left = right
        return True
    if isinstance(expr, ast.BinOp) and isinstance(expr.op, ast.Add):
        a, b = concrete_value(expr.left, val), concrete_value(expr.right, val)
        if isinstance(a, str) and isinstance(b, str) or (isinstance(a, (int, float)) and isinstance(b, (int, float)) and not isinstance(a, bool) and not isinstance(b, bool)):
            return a + b
        raise Undecided(k)
    if isinstance(expr, ast.Subscript):
        v = concrete_value(expr.value, val)
        if isinstance(v, (str, tuple)):
            sl = expr.slice
            try:
                if isinstance(sl, ast.Slice):
                    lo = None if sl.lower is None else concrete_value(sl.lower, val)
                    hi = None if sl.upper is None else concrete_value(sl.upper, val)
                    if sl.step is None and all(x is None or (isinstance(x, int) and not isinstance(x, bool)) for x in (lo, hi)):
                        return v[lo:hi]
                else:
                    i = concrete_value(sl, val)
                    if isinstance(i, int) and not isinstance(i, bool):
                        return v[i]
            except IndexError:
                raise Undecided(k + " (the subscript raises)")
        raise Undecided(k)
    if isinstance(expr, ast.Call) and isinstance(expr.func, ast.Attribute) and len(expr.args) == 1 and not expr.keywords \
            and expr.func.attr in ("startswith", "endswith"):
        v, a = concrete_value(expr.func.value, val), concrete_value(expr.args[0], val)
        if isinstance(v, str) and isinstance(a, str):
            return getattr(v, expr.func.attr)(a)
        raise Undecided(k)
    if isinstance(expr, ast.Call) and isinstance(expr.func, ast.Attribute) and not expr.args and not expr.keywords \
            and expr.func.attr in ("strip", "lstrip", "rstrip", "lower", "upper"):
        v = concrete_value(expr.func.value, val)
        if isinstance(v, str):
            return getattr(v, expr.func.attr)()
        raise Undecided(k)
    if isinstance(expr, ast.Call) and isinstance(expr.func, ast.Name) and not expr.keywords:
        if expr.func.id == "isinstance" and len(expr.args) == 2:
            v = concrete_value(expr.args[0], val)
            ts = expr.args[1].elts if isinstance(expr.args[1], ast.Tuple) else [expr.args[1]]
            types = []
            for t in ts:
                if not (isinstance(t, ast.Name) and t.id in _BUILTIN_TYPES):
                    raise Undecided(k)
                types.append(_BUILTIN_TYPES[t.id])
            return isinstance(v, tuple(types))
        if expr.func.id in ("len", "bool") and len(expr.args) == 1:
            v = concrete_value(expr.args[0], val)
            try:
                return len(v) if expr.func.id == "len" else bool(v)
            except TypeError:
                raise Undecided(k)
    raise Undecided(k)


def concrete_truth(expr, val):
    """bool / None (undecided)"""
    try:
        return bool(concrete_value(expr, val))
    except Undecided:
        return None


def identity_of_values(ctx, subdirs, why):
    """`a is b` between two value-carrying operands asks whether they are the same object; equal values (two equal
    ints, a numpy bool and True, two equal strings built at run time) are in general different objects.  Identity is
    accepted against the singletons None / True / False / Ellipsis / NotImplemented and against enum-style constants
    (an attribute in capitals); anything else is reported."""
    n = 0
    for sub in subdirs:
        for rel in ([sub] if sub.endswith(".py") else ctx.repo.all_py(sub)):
            try:
                mod = ctx.repo.module(rel)
            except Exception:
                continue
            for c in ast.walk(mod.tree):
                if not isinstance(c, ast.Compare):
                    continue
                operands = [c.left] + list(c.comparators)
                for i, op in enumerate(c.ops):
                    if not isinstance(op, (ast.Is, ast.IsNot)):
                        continue
                    n += 1
                    a, b = operands[i], operands[i + 1]

                    def singleton(x):
                        return (isinstance(x, ast.Constant) and (x.value is None or x.value is True or x.value is False or x.value is Ellipsis)) \
                            or (isinstance(x, ast.Name) and x.id in ("NotImplemented", "Ellipsis")) \
                            or (isinstance(x, ast.Attribute) and x.attr.isupper()) \
                            or (isinstance(x, ast.Call) and isinstance(x.func, ast.Name) and x.func.id == "type") \
                            or (isinstance(x, ast.Name) and x.id[:1].isupper())
                    if singleton(a) or singleton(b):
                        continue
                    from ..model import enclosing_function, qualname
                    fn = enclosing_function(c)
                    ctx.violated(rel, qualname(fn) if fn is not None else "<module>", why, detail=norm(c),
                                 expected=norm(c).replace(" is not ", " != ").replace(" is ", " == "))
    ctx.holds("-", "-", f"identity comparisons scanned ({n}): {why}")
    return n


def escape_marks_removed(ctx):
    """DIP._determine_node replaces escaped quotes and newlines of a line by marks ($@00 ...) before the line is cut into
    parts, and puts the characters back afterwards.  Every text field the parser fills from the marked line - the raw
    value, a function name, an expression - has to get them back: sibling fields are compared (one decoded, another
    handed out with the marks still in it is the violation)."""
    DIPF, PARF = "src/scinumtools/dip/dip.py", "src/scinumtools/dip/nodes/parser.py"
    fn = ctx.fn(DIPF, "DIP._determine_node")
    what = "every text field cut from the marked line gets its escaped characters back"
    pc = ctx.repo.cls(PARF, "Parser")
    from ..model import methods as _methods
    filled = set()
    for mname, m in _methods(pc).items():
        if not mname.startswith("part_"):
            continue
        for a in ast.walk(m):
            if isinstance(a, ast.Assign) and isinstance(a.targets[0], ast.Attribute) and norm(a.targets[0].value) == "self" and a.targets[0].attr.startswith("value_") \
                    and (("group(" in norm(a.value)) or isinstance(a.value, ast.Subscript)):
                filled.add(a.targets[0].attr)
    filled -= {"value_ref", "value_slice"}          # a reference path / a slice are cut by patterns that admit no quote
    decoded = set()
    for c in ast.walk(fn):
        if isinstance(c, ast.Call) and isinstance(c.func, ast.Name) and c.func.id == "decode_symbols" and c.args and isinstance(c.args[0], ast.Attribute) \
                and norm(c.args[0].value) == "node":
            decoded.add(c.args[0].attr)
        if isinstance(c, ast.Call) and isinstance(c.func, ast.Name) and c.func.id in ("setattr", "getattr") and len(c.args) >= 2 and isinstance(c.args[1], ast.Constant):
            decoded.add(c.args[1].value)
    for lp in ast.walk(fn):
        if isinstance(lp, ast.For) and isinstance(lp.iter, (ast.Tuple, ast.List)) and "decode_symbols" in norm(lp):
            decoded |= {e.value for e in lp.iter.elts if isinstance(e, ast.Constant) and isinstance(e.value, str)}
    if len(filled) < 2 or not decoded:
        ctx.form(False, DIPF, "DIP._determine_node", what, detail={"filled by the parser": sorted(filled), "decoded": sorted(decoded)})
        return
    missing = sorted(filled - decoded)
    if missing:
        ctx.violated(DIPF, "DIP._determine_node", what, detail={"decoded": sorted(decoded & filled), "handed out with the marks": missing},
                     expected=f"node.{missing[0]} = decode_symbols(node.{missing[0]})")
    else:
        ctx.holds(DIPF, "DIP._determine_node", what, detail=sorted(filled))


def conversion_roles(ctx):
    """`_convert(magnitude, its units, target units)`: the number handed over is read in the units of the object it was
    taken from.  A call that pairs `a.magnitude` with `b.baseunits` converts a's number as if it were given in b's units."""
    n = 0
    for rel in ("src/scinumtools/units/quantity.py", "src/scinumtools/units/unit_types.py"):
        mod = ctx.repo.module(rel)
        for c in ast.walk(mod.tree):
            if not (isinstance(c, ast.Call) and isinstance(c.func, ast.Attribute) and c.func.attr == "_convert" and len(c.args) == 3):
                continue
            m, src = c.args[0], c.args[1]
            if not (isinstance(m, ast.Attribute) and m.attr == "magnitude" and isinstance(src, ast.Attribute) and src.attr == "baseunits"):
                continue
            n += 1
            from ..model import enclosing_function, qualname
            fn = enclosing_function(c)
            q = qualname(fn) if fn is not None else "<module>"
            what = "a magnitude is converted from the units of the object it belongs to"
            if norm(m.value) == norm(src.value):
                ctx.holds(rel, q, what, detail=norm(c)[:90])
            else:
                ctx.violated(rel, q, what, detail=norm(c)[:100], expected=f"_convert({norm(m)}, {norm(m.value)}.baseunits, ...)")
    ctx.floor("_convert call sites with (x.magnitude, y.baseunits)", n, 8)


def published_tables_agree(ctx):
    """The documentation publishes the unit tables as CSV files generated from settings.py (docs/source/_static/tables).
    Both are data: the rows are compared as written - prefix name and power of ten, the prefixes a unit admits.  A row changed on one side only means the library no longer implements the published table."""
    import csv
    import re as _re
    from ..unittables import unit_standard, unit_prefixes, SETTINGS
    from ..literal import ClassRef
    base = ctx.repo.root / "docs/source/_static/tables"
    what = "the tables in settings.py are the published tables"
    if not base.is_dir():
        ctx.holds("-", "-", "published tables are not part of this tree (nothing to compare)")
        return
    cols, rows = unit_standard(ctx.repo)
    pcols, prows = unit_prefixes(ctx.repo)
    ix = {c: i for i, c in enumerate(cols)}
    n = 0

    def read(name):
        p = base / name
        if not p.is_file():
            return []
        ctx.repo.read_text(f"docs/source/_static/tables/{name}")
        with open(p, newline="", encoding="utf-8") as f:
            return list(csv.DictReader(f))
    for r in read("prefixes.csv"):
        s = (r.get("Symbol") or "").strip()
        m = _re.search(r"10\^\{(-?\d+)\}", r.get("Magnitude") or "")
        if s not in prows or not m:
            if s and s not in prows:
                ctx.violated(SETTINGS, "UNIT_PREFIXES", what, detail=f"published prefix {s!r} is not in the table")
            continue
        n += 1
        want = 10.0 ** int(m.group(1))
        if abs(prows[s][0] - want) <= 1e-12 * want:
            ctx.holds(SETTINGS, "UNIT_PREFIXES", what, detail=f"{s} = 1e{m.group(1)}")
        else:
            ctx.violated(SETTINGS, "UNIT_PREFIXES", what, detail={s: prows[s][0]}, expected=f"1e{m.group(1)} (docs/source/_static/tables/prefixes.csv)")
    for name in ("unit_base.csv", "unit_standard.csv", "unit_logarithmic.csv", "unit_temperature.csv", "constants.csv"):
        for r in read(name):
            syms = [x.strip() for x in (r.get("Symbol") or "").split(",") if x.strip()]
            if len(syms) != 1 or syms[0] not in rows:
                continue              # rows the generator merged by name are not taken apart here
            s = syms[0]
            row = rows[s]
            if "Prefixes" in r:
                cell = (r.get("Prefixes") or "").strip()
                code = row[ix["prefixes"]] if len(row) > ix["prefixes"] else False
                pub = True if cell == "all" else (sorted(x.strip() for x in cell.split(",") if x.strip()) if cell else False)
                mine = True if code is True else (sorted(f"{p}{s}" for p in code) if isinstance(code, list) else False)
                n += 1
                if pub == mine:
                    ctx.holds(SETTINGS, "UNIT_STANDARD", what, detail=f"{s}: prefixes {cell or 'none'}")
                else:
                    ctx.violated(SETTINGS, "UNIT_STANDARD", what, detail={s: {"admitted by the table": mine, "published": pub}}, expected=f"docs/source/_static/tables/{name}")
            # (definition texts are not compared: `N*m2/C2` and `kg*m3/(s4*A2)` are two spellings of one definition)
    ctx.floor("published table cells compared", n, 100)
