"""C07 — operations on quantities never alter their operands. Decided by an interprocedural
aliasing/mutation analysis of the units package (flow-sensitive points-to over parameter-rooted
access paths, summaries to a fixpoint over the call graph): (R1) for every operator, comparison,
NumPy hook, registered NumPy function and query method the transitive write set contains no object
reachable from a parameter; (R2) the in-place API (to, rebase, abse(x), rele(x)) writes only fields
of `self`; (R3) no object reachable from an operand is stored in a result unless its class is
effectively immutable (computed: nothing outside its constructor writes it), with two tabulated
value-preserving normalisations. This covers all operand pairs and all later histories at once.
NOT decided: aliasing created inside numpy for views of user arrays (constructors copy)."""
import ast

from ..effects import Program
from ..literal import ClassRef
from ..model import AnalysisError, dotted_name, methods, norm
from ..unittables import module_const

LEVEL_TEXT = ("static analysis (ast): interprocedural effect analysis - parameter-rooted points-to, mutation and "
              "capture summaries propagated to a fixpoint over the units package call graph - deciding that no entry "
              "point writes through or keeps a mutable alias of an operand; a universal statement over operand pairs "
              "and later operation sequences that re-reading tests do not make")
LEVEL_NOTE = ("trusted: numpy functions other than the tabulated in-place ones return new arrays; the type hints for "
              "true entry points (operator operands are quantities or numbers, *inputs of __array_ufunc__ are "
              "quantities); unresolved receivers fall back to the union over all classes defining the method")
TECHNIQUE = "interprocedural alias/mutation (effect) analysis over ast with fixpoint summaries (static analysis)"

UNITS = "src/scinumtools/units/"
SCOPE = [UNITS + f for f in ("quantity.py", "unit_types.py", "magnitude.py", "base_units.py", "fraction.py",
                             "dimensions.py", "unit_solver.py", "unit.py", "constant.py", "nan.py")] + \
        ["src/scinumtools/solver/" + f for f in ("solver.py", "tokens.py", "operators.py", "expression.py", "atom.py")]
Q = UNITS + "quantity.py"

BIN = ["add", "sub", "mul", "truediv"]
# tabulated exceptions to "effectively immutable" (one named symbol each, with the reason)
VALUE_PRESERVING = {
    "Fraction.rebase": "rewrites a fraction into its normal form (sign on the numerator, gcd removed): the value is unchanged",
    "BaseUnits.__init__": "normalises the exponent dict it is handed (wraps ints, drops zero exponents): the identity on a dict that already went through a constructor",
}
INPLACE_API = {"Quantity.to": {"magnitude", "baseunits"}, "Quantity.rebase": {"magnitude", "baseunits"},
               "Quantity.abse": {"magnitude"}, "Quantity.rele": {"magnitude"},
               "Magnitude.abse": {"error"}, "Magnitude.rele": {"error"}}


def build(ctx):
    hints = {}
    for op in BIN:
        for q in (f"Quantity.__{op}__", f"Quantity.__r{op}__"):
            hints[(q, "other")] = {"Quantity", "num"}
        for q in (f"Magnitude.__{op}__", f"Magnitude.__r{op}__"):
            hints[(q, "other")] = {"Magnitude", "num"}
        for q in (f"Quantity._{op}",):
            hints[(q, "left")] = {"Quantity"}
            hints[(q, "right")] = {"Quantity"}
        for q in (f"Magnitude._{op}",):
            hints[(q, "left")] = {"Magnitude"}
            hints[(q, "right")] = {"Magnitude"}
    hints[("Quantity.__eq__", "other")] = {"Quantity", "num"}
    hints[("Quantity.__array_ufunc__", "inputs")] = "Quantity"
    qmod = ctx.repo.module(Q)
    implemented = []
    for name, fn in qmod.functions.items():
        if any(isinstance(d, ast.Call) and getattr(d.func, "id", None) == "implements" for d in fn.decorator_list):
            implemented.append(name)
            for a in fn.args.args:
                hints[(name, a.arg)] = {"Quantity", "num"} if a.arg in ("a", "b") else {"num"}
    types = module_const(ctx.repo, "UNIT_TYPES")
    class_lists = {"UNIT_TYPES": [t.name for t in types if isinstance(t, ClassRef)]}
    # element type of the exponent dict: BaseUnits.__init__ wraps every entry in a Fraction before anything reads it
    field_hints = {("BaseUnits", "baseunits"): "dict<Fraction>"}
    prog = Program(ctx.repo, SCOPE, hints=hints, field_hints=field_hints, class_lists=class_lists)
    prog.solve()
    return prog, implemented


def entry_points(prog, implemented):
    E = []
    for op in BIN:
        E += [f"Quantity.__{op}__", f"Quantity.__r{op}__", f"Magnitude.__{op}__", f"Magnitude.__r{op}__"]
    E += ["Quantity.__pow__", "Quantity.__neg__", "Quantity.__eq__", "Quantity.__getitem__", "Quantity.__array_ufunc__",
          "Quantity.__array_function__", "Quantity.value", "Quantity.units", "Quantity.__str__", "Quantity.__repr__",
          "Quantity._convert", "Magnitude.__pow__", "Magnitude.__neg__", "Magnitude.__str__", "Magnitude.__repr__"]
    E += implemented
    return E


def _pname(prog, q, i):
    m, fn, cls = prog.funcs[q]
    ps = [a.arg for a in fn.args.posonlyargs + fn.args.args] + ([fn.args.vararg.arg] if fn.args.vararg else [])
    return ps[i] if i < len(ps) else f"arg{i}"


def _mutable_classes(prog):
    """class -> list of (function, field) that write instances outside the constructor"""
    writers = {}
    for q, res in prog.raw.items():
        for (t, f, via) in res.type_writes:
            if t in prog.classes:
                ctor = {f"{k}.{m}" for k in prog.mro(t) + prog.subclasses(t) for m in ("__init__", "__new__", "__post_init__")}
                if q in ctor:
                    continue
                writers.setdefault(t, set()).add((q, f))
    return writers


def r1_no_operand_mutation(ctx):
    prog, implemented = build(ctx)
    ctx._c07 = (prog, implemented)
    E = entry_points(prog, implemented)
    n = 0
    ctx.info["functions_in_scope"] = len(prog.funcs)
    ctx.info["fixpoint_iterations"] = prog.iterations
    nunres = sum(len(v) for v in prog.unresolved.values())
    ncalls = sum(len(v) for v in prog.call_edges.values())
    ctx.info["call_edges"] = ncalls
    ctx.info["unresolved_or_cha_calls"] = nunres
    for q in E:
        if q not in prog.funcs:
            ctx.violated(Q, q, "entry point exists", detail="missing") if q.startswith(("Quantity.", "Magnitude.")) and \
                q.split(".")[1] in ("__add__", "__sub__", "__mul__", "__truediv__", "__neg__", "__eq__") else None
            continue
        n += 1
        m, fn, cls = prog.funcs[q]
        ctx.functions_analysed.add(f"{m.relpath}::{q}")
        res = prog.raw[q]
        bad = {}
        for (i, path, via, where, cond, origin) in res.mut:
            if origin in VALUE_PRESERVING:
                continue
            bad.setdefault((_pname(prog, q, i) + "".join("." + p for p in path)), set()).add(f"{via} @ {where} (store in {origin})")
        if bad:
            for target, vias in sorted(bad.items()):
                ctx.violated(m.relpath, q, f"writes operand state {target}", detail=sorted(vias)[:4],
                             expected="no write to any object reachable from a parameter")
        else:
            ctx.holds(m.relpath, q, "transitive write set contains no parameter-reachable object",
                      detail={"callees": len(prog.call_edges.get(q, ()))})
    ctx.floor("entry points", n, 34)
    ctx.floor("registered NumPy functions", len(implemented), 9)


def r2_inplace_api(ctx):
    prog, implemented = getattr(ctx, "_c07", None) or build(ctx)
    for q, allowed in INPLACE_API.items():
        if q not in prog.funcs:
            ctx.unrecognised(Q, q, "in-place method", "missing")
            continue
        m, fn, cls = prog.funcs[q]
        res = prog.raw[q]
        bad = []
        for (i, path, via, where, cond, origin) in res.mut:
            if origin in VALUE_PRESERVING:
                continue
            if i != 0:
                bad.append(f"{_pname(prog, q, i)}{''.join('.' + p for p in path)}: {via} @ {where}")
            elif not path or path[0] not in allowed:
                bad.append(f"self{''.join('.' + p for p in path)}: {via} @ {where}")
        ctx.check(not bad, m.relpath, q, f"in-place method writes only self.{{{', '.join(sorted(allowed))}}}",
                  detail=bad or None)


def r3_no_shared_mutable_state(ctx):
    _fresh_arrays(ctx)
    _setters_rebind(ctx)
    prog, implemented = getattr(ctx, "_c07", None) or build(ctx)
    writers = _mutable_classes(prog)
    mutable = {}
    for c, ws in writers.items():
        real = sorted((q, f) for (q, f) in ws if q not in VALUE_PRESERVING)
        if real:
            mutable[c] = real
    ctx.info["effectively_immutable"] = sorted(set(prog.classes) - set(mutable))
    ctx.info["mutable_classes"] = {c: [f"{q}:{f}" for q, f in ws][:6] for c, ws in mutable.items()}
    # the tabulated exceptions must still be what they are said to be
    for q, why in VALUE_PRESERVING.items():
        ctx.check(q in prog.funcs, Q, q, "tabulated value-preserving normalisation exists", detail=why)
    E = entry_points(prog, implemented)
    n = 0
    for q in E:
        if q not in prog.funcs:
            continue
        m, fn, cls = prog.funcs[q]
        s = prog.summ[q]
        n += 1
        bad, untyped = [], []
        # result *is* an operand object
        returns_object = bool(s.ret_types & {"Quantity", "Magnitude"})
        for (i, path, cond) in s.ret_alias:
            if not returns_object and not ({"Quantity", "Magnitude"} & _types_at(prog, q, i, path)):
                continue     # plain data handed out by a query (value(), units()) is not a quantity result
            types = _types_at(prog, q, i, path, cond)
            if any(_is_mutable(t, mutable) for t in types):
                bad.append(f"returns {_pname(prog, q, i)}{''.join('.' + p for p in path)} itself (type {sorted(map(str, types))})")
        for (fp, i, path, cond, vt) in s.ret_fields:
            if vt is not None:
                continue     # established immutable (number / None) on every path that stores it
            types = _types_at(prog, q, i, path, cond)
            mt = [t for t in types if _is_mutable(t, mutable)]
            if mt and all(t is None for t in mt):
                untyped.append(f"result.{fp} comes from {_pname(prog, q, i)}{''.join('.' + p for p in path)}, whose type the analysis does not know")
            elif mt:
                bad.append(f"result.{fp} aliases {_pname(prog, q, i)}{''.join('.' + p for p in path)} (mutable type {sorted(map(str, mt))})")
        if untyped and not bad:
            # nothing is known about the object: neither a mutable class (a violation) nor an immutable one
            ctx.form(False, m.relpath, q, "result shares no mutable object with an operand", detail=sorted(untyped)[:3])
            continue
        ctx.check(not bad, m.relpath, q, "result shares no mutable object with an operand", detail=sorted(bad)[:5] or None,
                  expected="operand-reachable objects stored in a result are of effectively immutable classes")
    ctx.floor("entry points", n, 34)


def _types_at(prog, q, i, path, cond=None):
    """Static types of parameter i's object at `path` as far as known."""
    m, fn, cls = prog.funcs[q]
    ps = [a.arg for a in fn.args.posonlyargs + fn.args.args]
    from ..effects import FunctionAnalysis
    fa = FunctionAnalysis(prog, q)
    env = fa.initial_env()
    name = ps[i] if i < len(ps) else (fn.args.vararg.arg if fn.args.vararg else None)
    if name is None or name not in env:
        return {None}
    cur = {(o, t) for (o, t) in env[name] if t not in ("num", "str", "bool", "tuple") and (cond is None or t is None or t in cond)}
    if not cur:
        return set()
    for f in path:
        cur = fa.elem(cur) if f == "*" else fa.field(cur, f)
    return {t for (_, t) in cur}


def _is_mutable(t, mutable):
    if t in ("num", "str", "tuple", "bool"):
        return False
    if t is None:
        return True      # unknown type: cannot be shown immutable
    if t in ("ndarray?", "dict", "list"):
        return True
    if t.startswith("class:"):
        return False
    return t in mutable


INPLACE_DUNDERS = ("__iadd__", "__isub__", "__imul__", "__itruediv__", "__ifloordiv__", "__imod__", "__ipow__", "__iand__", "__ior__", "__ixor__", "__imatmul__",
                   "__ilshift__", "__irshift__")
VALUE_CLASSES = (("src/scinumtools/units/fraction.py", "Fraction"), ("src/scinumtools/units/magnitude.py", "Magnitude"), ("src/scinumtools/units/dimensions.py", "Dimensions"),
                 ("src/scinumtools/units/base_units.py", "BaseUnits"), ("src/scinumtools/units/quantity.py", "Quantity"))


def _setters_rebind(ctx):
    """The in-place methods replace a field by a new object (`self.error = ...`).  Writing *into* the object the field
    refers to (`self.error[...] = x`, `self.value[i] = x`) changes every quantity that shares that array - a result that
    took its uncertainties over from an operand, a slice."""
    n = 0
    for rel, cname in (("src/scinumtools/units/magnitude.py", "Magnitude"), ("src/scinumtools/units/quantity.py", "Quantity")):
        c = ctx.repo.cls(rel, cname)
        for mname, fn in methods(c).items():
            me = fn.args.args[0].arg if fn.args.args else "self"
            for a in ast.walk(fn):
                if isinstance(a, ast.Subscript) and isinstance(a.ctx, (ast.Store, ast.Del)):
                    base = a.value
                    while isinstance(base, (ast.Attribute, ast.Subscript)):
                        if isinstance(base, ast.Attribute) and isinstance(base.value, ast.Name) and base.value.id == me:
                            n += 1
                            ctx.violated(rel, f"{cname}.{mname}", "fields are replaced, never written into (their arrays may be shared with other quantities)",
                                         detail=f"{norm(a)} = ...", expected=f"{norm(base)} = <new object>")
                            break
                        base = base.value
    ctx.holds("-", "-", "scan of Magnitude/Quantity methods for writes into a field's array completed")


def _fresh_arrays(ctx):
    """Magnitude.__init__ keeps its own array: `astype(float)` copies, `astype(float, copy=False)`, `np.asarray` and the
    argument itself do not - the caller's array (an operand's values, a slice of them) would then be the new object's."""
    rel = "src/scinumtools/units/magnitude.py"
    fn = ctx.fn(rel, "Magnitude.__init__")
    pv = fn.args.args[1].arg
    what = "an array magnitude is stored as a fresh copy, never the caller's array"
    seen = 0
    for a in ast.walk(fn):
        if isinstance(a, ast.Assign) and any(norm(t) == "self.value" for t in a.targets):
            v = a.value
            txt = norm(v)
            if isinstance(v, ast.Call) and isinstance(v.func, ast.Attribute) and v.func.attr == "astype" and norm(v.func.value) == pv:
                seen += 1
                nocopy = any(k.arg == "copy" and isinstance(k.value, ast.Constant) and k.value.value is False for k in v.keywords)
                if nocopy:
                    ctx.violated(rel, "Magnitude.__init__", what, detail=txt, expected=f"{pv}.astype(float)")
                else:
                    ctx.holds(rel, "Magnitude.__init__", what)
            elif isinstance(v, ast.Call) and dotted_name(v.func) in ("np.asarray", "numpy.asarray", "np.asanyarray") and v.args and norm(v.args[0]) == pv:
                seen += 1
                ctx.violated(rel, "Magnitude.__init__", what, detail=txt, expected=f"{pv}.astype(float) / np.array({pv}, dtype=float)")
    ctx.form(seen >= 1, rel, "Magnitude.__init__", "the array branch of the constructor is found")


def r4_value_objects(ctx):
    """Exponents, magnitudes, dimension vectors and unit tables are shared freely between an operand and a result
    (shallow dict copies, `baseunits = left.baseunits`) because every operator on them returns a new object.  An
    in-place operator method (`__iadd__`, `__imul__`, ...) that changes self turns every `x[k] += y` / `x.f *= y`
    on such a shared object into a mutation of the operand; without the method Python rebinds the slot to a new object."""
    n = 0
    for rel, cname in VALUE_CLASSES:
        c = ctx.repo.cls(rel, cname)
        ms = methods(c)
        n += 1
        for d in INPLACE_DUNDERS:
            fn = ms.get(d)
            if fn is None:
                continue
            writes = [x for x in ast.walk(fn) if isinstance(x, (ast.Attribute, ast.Subscript)) and isinstance(x.ctx, (ast.Store, ast.Del))
                      and isinstance(x.value, ast.Name) and x.value.id == fn.args.args[0].arg]
            if writes:
                ctx.violated(rel, f"{cname}.{d}", "value objects have no in-place operator that changes self (augmented assignment on a shared exponent/magnitude rebinds, never mutates)",
                             detail=[ast.unparse(w) for w in writes][:3], expected=f"no {d}: `a {d[3:-2]}= b` then evaluates a = a.__{d[3:]}(b) and rebinds")
            else:
                ctx.form(False, rel, f"{cname}.{d}", "in-place operator present: whether it changes self is not decided here")
    ctx.floor("value classes scanned for in-place operators", n, 5)
    ctx.holds("-", "-", "scan of the value classes for in-place operator methods completed")


RULES = [
    ("C07.R1", "no operator, comparison, NumPy hook/function or query method writes (directly or through any callee) to an object reachable from one of its parameters", r1_no_operand_mutation),
    ("C07.R2", "the in-place methods to/rebase/abse(x)/rele(x) write only the named fields of self", r2_inplace_api),
    ("C07.R3", "results keep no alias to an operand-reachable object of a class that anything outside its constructor mutates (or of array/dict/list/unknown type)", r3_no_shared_mutable_state),
    ("C07.R4", "the value classes (Fraction, Magnitude, Dimensions, BaseUnits, Quantity) define no in-place operator method that changes self: augmented assignment on shared exponents and magnitudes rebinds", r4_value_objects),
]
