"""C20 — table, row and grid helpers. Decided (representation invariants and index algebra):
(R1) keyed ParameterTable: only __init__/append/__delitem__ write the key list and the dict; a store
adds the key only when it is new (an overwrite keeps its position), a delete removes it from both;
positional access goes through the key list, so `_keys == list(_data)` is an invariant over every
operation sequence; (R2) RowCollector: append writes one value to every column in column order
(dict rows are re-ordered by the column list, unknown keys raise), sort computes one index vector
from the named column and applies that same vector to every column in both storage modes;
(R3) DataPlotGrid: for every (missing, transpose, data kind) the yielded cell is
(i div d, i mod d) with d = ncols in normal order and (i mod d, i div d) with d = nrows transposed -
also through helper functions, whose transpose argument must be the caller's; the missing range is
[ndata, ncols*nrows) and nrows = ceil(ndata/ncols); (R4) DataCombination: keys/values/items iterate
itertools.product over the same ranges / lists and items pairs list i with key component i.
NOT decided: the model equivalence over all histories; argsort tie order. Also: key-kind decision table of __getitem__; a dict row is complete before any column is extended."""
import ast

from ..model import AnalysisError, dotted_name, methods, norm, walk_no_nested
from ..predtable import Handler, Unrecognised, run_block
from . import common as K

LEVEL_TEXT = ("static analysis (ast): who-may-write and paired-update rules for the two representations of the keyed table, "
              "column-loop rules of the row collector, exhaustive decision table of the grid cell arithmetic over "
              "(missing, transpose, data kind) including helper calls, index-pairing rule of the combination helper")
LEVEL_NOTE = "trusted: dict insertion order, numpy argsort/fancy indexing, itertools.product"
TECHNIQUE = "ast representation-invariant (paired update) rules + index-algebra decision tables (static analysis)"

PT = "src/scinumtools/parameter_table.py"
RC = "src/scinumtools/row_collector.py"
PG = "src/scinumtools/data_plot_grid.py"
DC = "src/scinumtools/data_combination.py"


def _keyed_branch(fn):
    """Statements executed in keyed mode: the else-branch of `if self._keys is None`."""
    for s in fn.body:
        if isinstance(s, ast.If) and norm(s.test) == "self._keys is None":
            return s.orelse
        if isinstance(s, ast.If) and norm(s.test) == "self._keys is not None":
            return s.body
    return None


def _attribute_access_for_every_key(ctx):
    """Index by attribute is part of the map interface for every key the table holds: in keyed mode __getattr__ looks
    the name up; a path that refuses a name because of the *shape of the name* (a prefix, a character test) before the
    lookup removes records from the attribute view that item access and iteration still show."""
    from ..flowexpr import paths
    what = "attribute access looks every name up among the keys; no name is refused for its shape"
    fn = ctx.fn(PT, "ParameterTable.__getattr__")
    pa = [a.arg for a in fn.args.args]
    key = pa[1] if len(pa) > 1 else "key"
    n = 0
    for q in paths(fn):
        n += 1
        if not any(e.kind == "raise" for e in q.events):
            continue
        for e in q.events:
            if e.kind != "test" or not isinstance(e.resolved, ast.AST):
                continue
            names = {norm(x) for x in ast.walk(e.resolved) if isinstance(x, (ast.Name, ast.Attribute))}
            if key in names and not any(x.startswith("self.") for x in names):
                ctx.violated(PT, "ParameterTable.__getattr__", what, detail=f"raises after the test `{norm(e.resolved)[:80]}` ({e.extra})", expected="self._data[key] for every key of a keyed table")
                break
    ctx.holds(PT, "ParameterTable.__getattr__", what, detail=f"{n} paths")


def _constructor_rows_are_appended(ctx):
    """Rows handed to the constructor are rows like any other: each goes through append(), which orders dict rows by
    column name and creates the columns of an empty collector from the first dict.  Every read of the `rows`
    parameter other than a test is the iterable of a loop whose body appends the loop variable."""
    what = "rows given to the constructor are stored by append(), one by one"
    fn = ctx.fn(RC, "RowCollector.__init__")
    pa = [a.arg for a in fn.args.args]
    rows = pa[2] if len(pa) > 2 else "rows"
    tests = set()
    for x in ast.walk(fn):
        if isinstance(x, (ast.If, ast.While, ast.IfExp)):
            tests |= {id(y) for y in ast.walk(x.test)}
    loops = {}
    for x in ast.walk(fn):
        if isinstance(x, ast.For) and norm(x.iter) == rows:
            loops[id(x.iter)] = x
        elif isinstance(x, ast.For) and isinstance(x.iter, ast.BoolOp) and isinstance(x.iter.op, ast.Or) and len(x.iter.values) == 2 and norm(x.iter.values[0]) == rows \
                and isinstance(x.iter.values[1], (ast.List, ast.Tuple)) and not x.iter.values[1].elts:
            loops[id(x.iter.values[0])] = x          # `for row in rows or []`
    n = 0
    for x in ast.walk(fn):
        if isinstance(x, ast.Name) and x.id == rows and isinstance(x.ctx, ast.Load) and id(x) not in tests:
            n += 1
            lp = loops.get(id(x))
            if lp is None:
                # positive evidence only: the statement that reads the rows stores into columns by other means
                top = next((st for st in ast.walk(fn) if isinstance(st, ast.stmt) and not isinstance(st, (ast.FunctionDef, ast.If, ast.With, ast.Try))
                            and any(y is x for y in ast.walk(st))), None)
                other = [norm(c.func) for c in ast.walk(top) if isinstance(c, ast.Call) and isinstance(c.func, ast.Attribute)
                         and c.func.attr in ("extend", "append", "insert", "concatenate", "__setitem__") and norm(c.func) != "self.append"] if top is not None else []
                if other and not any(isinstance(c, ast.Call) and norm(c.func) == "self.append" for c in ast.walk(top)):
                    ctx.violated(RC, "RowCollector.__init__", what, detail=f"`{rows}` is stored through {other[0]} (line {x.lineno}), not through append()", expected=f"for row in {rows}: self.append(row)")
                else:
                    ctx.unrecognised(RC, "RowCollector.__init__", what, f"`{rows}` read outside an append loop (line {x.lineno})")
                continue
            tv = norm(lp.target)
            calls = [c for c in ast.walk(lp) if isinstance(c, ast.Call) and norm(c.func) == "self.append"]
            if calls and all(len(c.args) == 1 and norm(c.args[0]) == tv for c in calls):
                ctx.holds(RC, "RowCollector.__init__", what, detail=norm(calls[0]))
            else:
                ctx.unrecognised(RC, "RowCollector.__init__", what, "loop over the rows without self.append(<row>)")
    ctx.floor("reads of the constructor's rows", n, 1)


def r1_paired_fields(ctx):
    _attribute_access_for_every_key(ctx)
    c = ctx.repo.cls(PT, "ParameterTable")
    writers = {}
    for name, fn in methods(c).items():
        for n in ast.walk(fn):
            tg = n.targets if isinstance(n, ast.Assign) else ([n.target] if isinstance(n, ast.AugAssign) else (n.targets if isinstance(n, ast.Delete) else []))
            for t in tg:
                d = norm(t)
                for fld in ("self._keys", "self._data"):
                    if d == fld or d.startswith(fld + "["):
                        writers.setdefault(fld, set()).add(name)
            if isinstance(n, ast.Call) and isinstance(n.func, ast.Attribute) and norm(n.func.value) in ("self._keys", "self._data") and \
                    n.func.attr in ("append", "remove", "pop", "insert", "clear", "sort", "reverse", "extend", "update", "setdefault", "popitem"):
                writers.setdefault(norm(n.func.value), set()).add(name)
    ctx.check(writers.get("self._keys", set()) <= {"__init__", "append", "__delitem__"} and writers.get("self._data", set()) <= {"__init__", "append", "__delitem__"}, PT,
              "ParameterTable", "only __init__, append and __delitem__ write the key list and the record dict", detail={k: sorted(v) for k, v in writers.items()})
    from ..flowexpr import consistent, paths
    ap = ctx.fn(PT, "ParameterTable.append")
    allp = paths(ap)
    keyed, _ = consistent(allp, lambda e: {"self._keys is None": False, "self._keys is not None": True}.get(norm(e), True))
    keyexprs = sorted({e.extra[len("self._data["):-1] for q in keyed for e in q.events if e.kind == "store" and str(e.extra).startswith("self._data[")})
    key = keyexprs[0] if len(keyexprs) == 1 else "key"
    cells, unk = {}, []
    for new_key in (True, False):
        def atom(e, _n=new_key):
            return {"self._keys is None": False, "self._keys is not None": True, f"{key} not in self._keys": _n, f"{key} in self._keys": not _n}.get(norm(e))
        ps, u = consistent(allp, atom)
        unk += u
        cells[new_key] = [q for q in ps if q.status != "raise"]
    if unk or not cells[True] or not cells[False]:
        ctx.unrecognised(PT, "ParameterTable.append", "keyed branch", f"paths of the keyed table not identified ({sorted(set(unk))[:2]})")
    else:
        def calls(q, names):
            return [norm(e.resolved) for e in q.events if e.kind == "expr" and isinstance(e.resolved, ast.Call) and norm(e.resolved.func) in names]
        removes = sorted({c for qs in cells.values() for q in qs for c in calls(q, ("self._keys.remove", "self._keys.pop", "self._keys.insert", "self._keys.sort", "self._keys.reverse"))})
        ctx.check(not removes, PT, "ParameterTable.append", "overwriting a key keeps its position (the key list is not reordered)", detail=removes or None,
                  expected="the dict keeps the original position of an overwritten key, so must the key list")
        add_new = [calls(q, ("self._keys.append",)) for q in cells[True]]
        add_old = [calls(q, ("self._keys.append",)) for q in cells[False]]
        ok = all(a == [f"self._keys.append({key})"] for a in add_new) and all(a == [] for a in add_old)
        ctx.check(ok, PT, "ParameterTable.append", "a key is added to the key list exactly when it is new",
                  detail={"new key": sorted({str(a) for a in add_new}), "existing key": sorted({str(a) for a in add_old})},
                  expected="if key not in self._keys: self._keys.append(key)")
        stores = [[norm(e.resolved) for e in q.events if e.kind == "store" and e.extra == f"self._data[{key}]"] for qs in cells.values() for q in qs]
        ctx.check(all(len(x) == 1 for x in stores), PT, "ParameterTable.append", "the record is stored under the key on the same path", detail=sorted({str(x) for x in stores}))
        import re as _re
        ctx.form(all(len(x) == 1 and _re.fullmatch(r"ParameterSettings\(dict\(zip\(self\._settings, [\w\[\]]+\)\)\)", x[0]) for x in stores), PT, "ParameterTable.append",
                 "the record pairs the declared fields with the values in order", detail=sorted({str(x) for x in stores}))
    de = ctx.fn(PT, "ParameterTable.__delitem__")
    arg = de.args.args[1].arg
    ps, unk = consistent(paths(de), lambda e: {"self._keys is None": False, "self._keys is not None": True}.get(norm(e)))
    if unk or not ps:
        ctx.unrecognised(PT, "ParameterTable.__delitem__", "keyed branch", f"paths of the keyed table not identified ({sorted(set(unk))[:2]})")
    else:
        b = sorted({norm(e.resolved) if e.kind == "expr" else "del " + norm(e.resolved) for q in ps for e in q.events if e.kind in ("expr", "delete")})
        ok = all(any(e.kind == "expr" and norm(e.resolved) == f"self._keys.remove({arg})" for e in q.events) and
                 any(e.kind == "delete" and norm(e.resolved) == f"self._data[{arg}]" for e in q.events) for q in ps)
        ctx.check(ok, PT, "ParameterTable.__delitem__", "a delete removes the key from the key list and the record from the dict",
                  detail=b, expected=[f"self._keys.remove({arg})", f"del self._data[{arg}]"])
    gi = ctx.fn(PT, "ParameterTable.__getitem__")
    k = gi.args.args[1].arg
    gps = paths(gi)
    rows, unk = {}, []
    for kind in ("int", "str", "other hashable"):
        cs, u = consistent(gps, lambda e, _k=kind: {"self._keys is None": False, "self._keys is not None": True, f"isinstance({k}, int)": _k == "int",
                                                    f"isinstance({k}, str)": _k == "str", f"isinstance({k}, (int, np.integer))": _k == "int"}.get(norm(e)))
        unk += u
        rows[kind] = sorted({norm(e.resolved) for q in cs for e in q.events if e.kind == "return"})
    if unk or not all(rows.values()):
        ctx.unrecognised(PT, "ParameterTable.__getitem__", "positional access goes through the key list", f"paths of a keyed table not identified ({sorted(set(unk))[:2]})")
    else:
        want = {"int": [f"self._data[self._keys[{k}]]"], "str": [f"self._data[{k}]"], "other hashable": [f"self._data[{k}]"]}
        ctx.check(rows == want, PT, "ParameterTable.__getitem__", "positional access goes through the key list", detail=rows, expected=want)
    si = ctx.fn(PT, "ParameterTable.__setitem__")
    _mode_tests(ctx)
    ctx.form("self.append(key, values)" in norm(si), PT, "ParameterTable.__setitem__", "item assignment is append (same paired update)")
    ks = ctx.fn(PT, "ParameterTable.keys")
    ctx.form("return self._keys" in norm(ks), PT, "ParameterTable.keys", "keys() reports the key list")
    co = ctx.fn(PT, "ParameterTable.__contains__")
    ctx.form("return item in self._keys" in norm(co), PT, "ParameterTable.__contains__", "membership is membership in the key list")
    ini = ctx.fn(PT, "ParameterTable.__init__")
    s = norm(ini).replace("\n", " ")
    ctx.form("self._data = [] if self._keys is None else {}" in s and "for key, values in parameters.items(): self.append(key, values)" in s, PT, "ParameterTable.__init__",
             "initial parameters are inserted through append in their given order")


def _mode_tests(ctx):
    """The table is keyed when `_keys` is a list - also an empty one - and positional when it is None.  Every test that
    consults only `_keys` is folded for the three cells None / [] / ['a']: an empty keyed table must take the branch
    of a non-empty keyed table (a truthiness test would treat it as positional: `'x' in table` raises, append() of the
    first record mis-files it)."""
    from .common import concrete_truth
    c = ctx.repo.cls(PT, "ParameterTable")
    n = 0
    for mname, fn in methods(c).items():
        for t in ast.walk(fn):
            test = t.test if isinstance(t, (ast.If, ast.IfExp, ast.While, ast.Assert)) else None
            if test is None or "self._keys" not in norm(test):
                continue
            cells = {k: concrete_truth(test, {"self._keys": v}) for k, v in (("None", None), ("[]", []), ("['a']", ["a"]))}
            if None in cells.values():
                continue
            n += 1
            what = "storage mode is decided by `_keys is None`, never by emptiness"
            if cells["[]"] == cells["['a']"]:
                ctx.holds(PT, f"ParameterTable.{mname}", what, detail=norm(test))
            else:
                ctx.violated(PT, f"ParameterTable.{mname}", what, detail={norm(test): cells}, expected="an empty keyed table takes the keyed branch")
    ctx.floor("mode tests on _keys", n, 8, file=PT)


def _column_iterations(fn, mode_array, extra=None):
    """Iteration paths of the loops over self._columns that are consistent with the storage mode.
    -> list of (loop, index token or None, name token, [resolved effect expressions])"""
    from ..flowexpr import consistent, explore
    ex = explore(fn)
    out = []
    for lp, start, its in [t for lst in ex.iterations_all.values() for t in lst]:
        if not isinstance(lp, ast.For):
            continue
        iters = {norm(q.events[start - 1].resolved) for q in its if start >= 1 and q.events[start - 1].kind == "loop"}
        if not iters or not all(i in ("enumerate(self._columns)", "self._columns", "zip(range(len(self._columns)), self._columns)", "zip(self._columns, self._columns)")
                                for i in iters):
            continue
        from ..flowexpr import truth
        table = {"self._array": mode_array, "self._array is False": not mode_array, "self._array is True": mode_array}
        table.update(extra or {})
        atom = lambda e: table.get(norm(e))   # noqa: E731
        cs = []
        for q in its:
            ok = True
            for e in q.events:
                if e.kind == "test" and isinstance(e.resolved, ast.AST):
                    v = truth(e.resolved, atom)
                    if v is not None and v != e.extra:
                        ok = False
            if ok:
                cs.append(q)
        for q in cs:
            tag = next((n.id.split("@")[1] for e in q.events[start:] if e.resolved is not None for n in ast.walk(e.resolved)
                        if isinstance(n, ast.Name) and "@loop" in n.id and not n.id.endswith("'")), None)
            if isinstance(lp.target, ast.Tuple):
                idx, nm = (f"{t.id}@{tag}" for t in lp.target.elts)
            else:
                idx, nm = None, f"{lp.target.id}@{tag}"
            eff = [e.resolved for e in q.events[start:] if e.kind == "expr" and isinstance(e.resolved, ast.Call)]
            by_name = norm(q.events[start - 1].resolved) == "zip(self._columns, self._columns)"
            out.append((lp, idx, nm, eff, by_name))
    return out


def r2_row_collector(ctx):
    """RowCollector on resolved iteration paths: in either storage mode one pass over the column list gives column n the
    n-th value of the row; sort() applies one index vector, computed once, to every column."""
    from ..model import cnorm
    _constructor_rows_are_appended(ctx)
    ap = ctx.fn(RC, "RowCollector.append")
    for mode in (True, False):
        name = "array" if mode else "list"
        try:
            its = _column_iterations(ap, mode)
        except (Unrecognised, AnalysisError) as e:
            ctx.unrecognised(RC, "RowCollector.append", f"{name} mode: column pass", str(e))
            continue
        loops = {id(i[0]) for i in its}
        if len(loops) != 1:
            ctx.unrecognised(RC, "RowCollector.append", f"{name} mode: column pass", f"{len(loops)} loops over the column list are entered in this mode")
            continue
        ctx.holds(RC, "RowCollector.append", f"{name} mode: every column is written, in column order", detail=norm(its[0][0].iter))
        for lp, idx, nm, eff, by_name in its:
            if by_name:
                ctx.violated(RC, "RowCollector.append", f"{name} mode: a row is complete before any column is extended",
                             detail="the row is looked up by column name inside the pass over the columns: a missing key raises after earlier columns were extended",
                             expected="values = [values[name] for name in self._columns] before the pass")
                continue
            if idx is None or len(eff) != 1:
                ctx.unrecognised(RC, "RowCollector.append", f"{name} mode: column n receives value n of the row", f"effects {[norm(x)[:60] for x in eff]}")
                continue
            got = cnorm(eff[0]).replace("[values[_c0] for _c0 in self._columns]", "values")
            col = f"getattr(self, {nm})"
            want = f"setattr(self, {nm}, np.append({col}, np.array(values[{idx}], dtype={col}.dtype)))" if mode else f"{col}.append(values[{idx}])"
            wrong = [f"setattr(self, {nm}, np.append(np.array(values[{idx}], dtype={col}.dtype), {col}))", f"{col}.insert(0, values[{idx}])"]
            if got == want:
                ctx.holds(RC, "RowCollector.append", f"{name} mode: column n receives value n of the row", detail=got.replace(nm, "NAME").replace(idx, "N"))
            elif got in wrong or ("values[" in got and f"values[{idx}]" not in got):
                ctx.violated(RC, "RowCollector.append", f"{name} mode: column n receives value n of the row", detail=got.replace(nm, "NAME").replace(idx, "N"),
                             expected=want.replace(nm, "NAME").replace(idx, "N"))
            else:
                ctx.unrecognised(RC, "RowCollector.append", f"{name} mode: column n receives value n of the row", f"effect {got[:120]}")
    asg = [cnorm(a) for a in ast.walk(ap) if isinstance(a, ast.Assign)]
    vp = ap.args.args[1].arg if len(ap.args.args) > 1 else "values"
    ctx.form(f"{vp} = [{vp}[_c0] for _c0 in self._columns]" in asg, RC, "RowCollector.append", "a dict row is re-ordered by the column list")
    ctx.form(any(a.endswith(f"= [_c0 for _c0 in {vp}.keys() if _c0 not in self._columns]") or a.endswith(f"= [_c0 for _c0 in {vp} if _c0 not in self._columns]") for a in asg)
             and "raise Exception('Missing columns:'" in norm(ap), RC, "RowCollector.append", "a dict row with an unknown key is an error once columns exist")
    so = ctx.fn(RC, "RowCollector.sort")
    arg = so.args.args[1].arg
    # every path through sort() reaches the loop that permutes the columns: a path that returns earlier leaves rows
    # appended since an earlier call unsorted, whatever flag it consulted
    from ..flowexpr import explore as _explore
    exs = _explore(so)
    EMPTY = ("not self._columns", "self._columns is None", "len(self._columns) == 0", "self.size() == 0", "self.size() < 2")
    for pth in exs.paths:
        if pth.status == "raise" or any(e.kind == "loop" for e in pth.events):
            continue
        guards = [(norm(t.resolved), t.extra) for t in pth.tests()]
        what = "sort() permutes the columns on every path (no remembered 'already sorted' state short-cuts it)"
        if any(g in EMPTY and v for g, v in guards):
            ctx.holds(RC, "RowCollector.sort", what)
        else:
            ctx.violated(RC, "RowCollector.sort", what, detail={"returns without permuting under": [f"{g} is {v}" for g, v in guards]},
                         expected="append() changes the rows without touching any such flag")
    # the order flag reaches the index vector in both storage modes: under `reverse` every column is indexed with the
    # reversed vector, otherwise with the vector itself (decided per (mode, flag) cell on the iteration paths consistent with it)
    rv = so.args.args[2].arg if len(so.args.args) > 2 else None
    Vr = f"np.argsort(getattr(self, {arg}))"
    for mode in (True, False) if rv else ():
        for flag in (True, False):
            cell = f"{'array' if mode else 'list'} mode, {rv}={flag}"
            what = "the order flag is honoured in both storage modes"
            try:
                its = _column_iterations(so, mode, {rv: flag, f"not {rv}": not flag, f"{rv} is True": flag, f"{rv} is False": not flag})
            except (Unrecognised, AnalysisError) as e:
                ctx.unrecognised(RC, "RowCollector.sort", what, f"{cell}: {e}")
                continue
            effs = {norm(x) for _lp, _i, nm_, eff, _b in its for x in eff}
            rev = [x for x in effs if Vr + "[::-1]" in x]
            fwd = [x for x in effs if Vr in x and Vr + "[::-1]" not in x]
            if not effs or (not rev and not fwd) or (rev and fwd):
                ctx.form(False, RC, "RowCollector.sort", what, detail={cell: sorted(effs)[:2]})
            elif bool(rev) == flag:
                ctx.holds(RC, "RowCollector.sort", what, detail=cell)
            else:
                ctx.violated(RC, "RowCollector.sort", what, detail={cell: sorted(effs)[0][:140]},
                             expected=f"indexed with {Vr}{'[::-1]' if flag else ''}")
    for mode in (True, False):
        name = "array" if mode else "list"
        try:
            its = _column_iterations(so, mode)
        except (Unrecognised, AnalysisError) as e:
            ctx.unrecognised(RC, "RowCollector.sort", f"{name} mode: permutation", str(e))
            continue
        if len({id(i[0]) for i in its}) != 1:
            ctx.unrecognised(RC, "RowCollector.sort", f"{name} mode: permutation", "loops over the column list")
            continue
        V = f"np.argsort(getattr(self, {arg}))"
        for lp, idx, nm, eff, by_name in its:
            if len(eff) != 1:
                ctx.unrecognised(RC, "RowCollector.sort", f"{name} mode: each column is replaced by itself indexed with the same vector", f"effects {[norm(x)[:60] for x in eff]}")
                continue
            got = norm(eff[0])
            col = f"getattr(self, {nm})"
            wants = [f"setattr(self, {nm}, {col}[{v}])" if mode else f"setattr(self, {nm}, list(np.array({col})[{v}]))" for v in (V, f"{V}[::-1]")]
            if got in wants:
                ctx.holds(RC, "RowCollector.sort", f"{name} mode: each column is replaced by itself indexed with the same vector", detail=got.replace(nm, "NAME")[:120])
            elif "argsort" in got.replace(V, "") or "sorted(" in got:
                ctx.violated(RC, "RowCollector.sort", f"{name} mode: no column is sorted on its own", detail=got.replace(nm, "NAME")[:160],
                             expected="one index vector computed from the named column, applied to every column")
            else:
                ctx.unrecognised(RC, "RowCollector.sort", f"{name} mode: each column is replaced by itself indexed with the same vector", f"effect {got[:140]}")


class GridHandler(Handler):
    def __init__(self, missing, transpose, kind):
        super().__init__()
        self.missing, self.transpose, self.kind = missing, transpose, kind
        self.yields = []
        self.ranges = []

    def test(self, node):
        s = norm(node)
        t = {"missing": self.missing, "transpose": self.transpose, "isinstance(self.data, list)": self.kind == "list", "isinstance(self.data, dict)": self.kind == "dict"}
        return t.get(s)

    def stmt(self, node):
        if isinstance(node, ast.Expr) and isinstance(node.value, ast.Yield):
            self.yields.append(node.value.value)
        elif isinstance(node, ast.Raise):
            self.yields.append(None)
        else:
            raise Unrecognised(norm(node))

    def compound(self, st):
        if isinstance(st, ast.For):
            self.ranges.append(norm(st.iter))
            sig = run_block(st.body, self)
            return "fall"
        raise Unrecognised(type(st).__name__)


def _idx_form(node):
    """int(i/self.X) | i//self.X -> ('div','X') ; int(i%self.X) | i%self.X -> ('mod','X')"""
    if isinstance(node, ast.Call) and dotted_name(node.func) == "int" and len(node.args) == 1:
        node = node.args[0]
    if isinstance(node, ast.BinOp) and norm(node.left) == "i" and isinstance(node.right, ast.Attribute) and norm(node.right.value) == "self":
        if isinstance(node.op, (ast.Div, ast.FloorDiv)):
            return ("div", node.right.attr)
        if isinstance(node.op, ast.Mod):
            return ("mod", node.right.attr)
    return None


def _cell_of(ctx, cls, tup, transpose):
    """Abstract (row, col) of a yielded tuple, following one helper call."""
    if not isinstance(tup, ast.Tuple) or len(tup.elts) < 2:
        raise Unrecognised("yield is not a tuple")
    e = tup.elts[1]
    if isinstance(e, ast.Starred) and isinstance(e.value, ast.Call) and isinstance(e.value.func, ast.Attribute) and norm(e.value.func.value) == "self":
        call = e.value
        helper = methods(cls).get(call.func.attr)
        if helper is None:
            raise Unrecognised(f"helper {call.func.attr} not found")
        params = [a.arg for a in helper.args.args[1:]]
        defaults = dict(zip(params[len(params) - len(helper.args.defaults):], helper.args.defaults))
        bound = {}
        for p, a in zip(params, call.args):
            bound[p] = norm(a)
        for k in call.keywords:
            bound[k.arg] = norm(k.value)
        tp = [p for p in params if p.startswith("transp")]
        if not tp:
            raise Unrecognised("helper has no transpose parameter")
        if tp[0] in bound:
            if bound[tp[0]] == "transpose":
                tval = transpose
            elif bound[tp[0]] in ("True", "False"):
                tval = bound[tp[0]] == "True"
            else:
                raise Unrecognised(f"transpose argument {bound[tp[0]]}")
        else:
            d = defaults.get(tp[0])
            tval = bool(d.value) if isinstance(d, ast.Constant) else False
        h = GridHandler(False, tval, None)
        h.test = lambda node, tval=tval, tpn=tp[0]: tval if norm(node) == tpn else None
        rets = []

        class HH(Handler):
            def test(self, node):
                return tval if norm(node) == tp[0] else None

            def stmt(self, node):
                if isinstance(node, ast.Return):
                    rets.append(node.value)
                else:
                    raise Unrecognised(norm(node))
        run_block(helper.body, HH())
        if len(rets) != 1 or not isinstance(rets[0], ast.Tuple) or len(rets[0].elts) != 2:
            raise Unrecognised("helper does not return a pair")
        return _idx_form(rets[0].elts[0]), _idx_form(rets[0].elts[1]), (None if tp[0] in bound else "helper called without the transpose argument")
    if len(tup.elts) < 3:
        raise Unrecognised("yield has no (row, col)")
    return _idx_form(tup.elts[1]), _idx_form(tup.elts[2]), None


def _idx_form_v(node, ivar):
    """int(I/self.X) | I//self.X -> ('div','X') ; int(I%self.X) | I%self.X -> ('mod','X') with I the loop's running index."""
    if isinstance(node, ast.Call) and dotted_name(node.func) == "int" and len(node.args) == 1:
        node = node.args[0]
    if isinstance(node, ast.BinOp) and norm(node.left) == ivar and isinstance(node.right, ast.Attribute) and norm(node.right.value) == "self":
        if isinstance(node.op, (ast.Div, ast.FloorDiv)):
            return ("div", node.right.attr)
        if isinstance(node.op, ast.Mod):
            return ("mod", node.right.attr)
    return None


def _flat(tup):
    out = []
    for e in tup.elts:
        if isinstance(e, ast.Starred) and isinstance(e.value, (ast.Tuple, ast.List)):
            out.extend(_flat(e.value))
        else:
            out.append(e)
    return out


def r3_grid(ctx):
    """Decision table over (missing, transpose, kind of data): on the iteration paths consistent with a cell the
    yielded tuple is resolved (helpers inlined, temporaries substituted) and its row/column terms are compared."""
    from ..flowexpr import consistent, explore
    fn = ctx.fn(PG, "DataPlotGrid.items")
    pa = [a.arg for a in fn.args.args]
    p_missing, p_transpose = (pa[1], pa[2]) if len(pa) >= 3 else ("missing", "transpose")
    ex = explore(fn)
    n = 0
    for missing in (True, False, None):
        for transpose in (True, False):
            for kind in (("any",) if missing else ("list", "dict")):
                cell = f"grid cell missing={missing} transpose={transpose} data={kind}"

                def atom(e, _m=missing, _t=transpose, _k=kind):
                    got = {p_missing: bool(_m), p_transpose: _t, "isinstance(self.data, list)": _k == "list", "isinstance(self.data, dict)": _k == "dict"}.get(norm(e), K.Undecided)
                    if got is K.Undecided:
                        # a test written over the flags (`missing is not None`, `missing == True`) is folded for the cell's constants
                        return K.concrete_truth(e, {p_missing: _m, p_transpose: _t})
                    return got
                found, unk = [], []
                for lp, start, its in ex.iterations.values():
                    if not isinstance(lp, ast.For):
                        continue
                    ps, u = consistent(its, atom)
                    unk += u
                    for q in ps:
                        ys = [e.resolved.value for e in q.events[start:] if e.kind == "expr" and isinstance(e.resolved, ast.Yield) and e.resolved.value is not None]
                        lpe = [e for e in q.events[start - 1:start] if e.kind == "loop"]
                        found.append((lp, q, ys, lpe))
                if unk and not found:
                    ctx.unrecognised(PG, "DataPlotGrid.items", cell, f"test not decided by the cell: {sorted(set(unk))[:2]}")
                    continue
                ok_found = [f for f in found if len(f[2]) == 1 and isinstance(f[2][0], ast.Tuple)]
                if len(found) != 1 or len(ok_found) != 1:
                    ctx.unrecognised(PG, "DataPlotGrid.items", cell, f"{len(found)} loop iterations consistent with the cell, {len(ok_found)} with exactly one yielded tuple")
                    continue
                lp, q, ys, lpe = ok_found[0]
                elts = _flat(ys[0])
                if len(elts) < 3:
                    ctx.unrecognised(PG, "DataPlotGrid.items", cell, "yield has no (row, col)")
                    continue
                # empty cells carry (index, row, col); data cells additionally the element (list) or key and value (dict)
                want_len = 3 if missing else (4 if kind == "list" else 5)
                if not any(isinstance(e, ast.Starred) for e in elts):  # an unpacked tail has no length the table could read
                    ctx.check(len(elts) == want_len, PG, "DataPlotGrid.items", f"{cell}: the yielded tuple has the documented fields", detail=[norm(e)[:40] for e in elts],
                              expected="(i, row, col)" if missing else ("(i, row, col, item)" if kind == "list" else "(i, row, col, key, value)"))
                ivar = norm(elts[0])
                a, b = _idx_form_v(elts[1], ivar), _idx_form_v(elts[2], ivar)
                if a is None or b is None:
                    ctx.unrecognised(PG, "DataPlotGrid.items", cell, f"row/column terms {norm(elts[1])[:60]} / {norm(elts[2])[:60]}")
                    continue
                n += 1
                want = (("mod", "nrows"), ("div", "nrows")) if transpose else (("div", "ncols"), ("mod", "ncols"))
                ctx.check((a, b) == want, PG, "DataPlotGrid.items", cell, detail={"row": a, "col": b}, expected={"row": want[0], "col": want[1]})
                tgt = lp.target.elts[0] if isinstance(lp.target, ast.Tuple) else lp.target
                if missing:
                    rng = [norm(e.resolved) for e in lpe]
                    ctx.check(rng == ["range(self.ndata, self.ncols * self.nrows)"], PG, "DataPlotGrid.items", f"{cell}: empty cells are the indices after the data up to ncols*nrows",
                              detail=rng)
                ctx.check(isinstance(tgt, ast.Name) and ivar.startswith(tgt.id + "@loop"), PG, "DataPlotGrid.items", f"{cell}: the running index is reported first", detail=ivar.split("@")[0])
    ctx.floor("grid cells", n, 10)
    ini = ctx.fn(PG, "DataPlotGrid.__init__")
    s = [norm(x) for x in K.body_nodoc(ini)]
    ctx.check("self.nrows = int(np.ceil(self.ndata / self.ncols))" in s and "self.ndata = len(data)" in s, PG, "DataPlotGrid.__init__", "nrows = ceil(ndata/ncols)", detail=[x for x in s if "nrows" in x])


def r4_combination(ctx):
    k = ctx.fn(DC, "DataCombination.keys")
    v = ctx.fn(DC, "DataCombination.values")
    it = ctx.fn(DC, "DataCombination.items")
    ids_def = "ids = [range(len(item)) for item in self._items]"
    for f, q in ((k, "keys"), (it, "items")):
        b = [norm(s) for s in K.body_nodoc(f)]
        ctx.form(ids_def in b, DC, f"DataCombination.{q}", "index ranges are range(len(list)) per list, in list order", detail=[x for x in b if x.startswith("ids")])
        loops = [l for l in ast.walk(f) if isinstance(l, ast.For)]
        ctx.form(len(loops) == 1 and norm(loops[0].iter) == "itertools.product(*ids)", DC, f"DataCombination.{q}", "index tuples enumerate the Cartesian product of the ranges", detail=[norm(l.iter) for l in loops])
    srcs = [norm(l.iter) for l in ast.walk(v) if isinstance(l, ast.For)] + [norm(y.value) for y in ast.walk(v) if isinstance(y, ast.YieldFrom)] + \
           [norm(r.value) for r in ast.walk(v) if isinstance(r, ast.Return) and r.value is not None]
    what = "value tuples enumerate the Cartesian product of the lists"
    if srcs == ["itertools.product(*self._items)"] or srcs == ["product(*self._items)"]:
        ctx.holds(DC, "DataCombination.values", what)
    elif any(x.startswith(("zip(", "itertools.zip_longest(", "itertools.chain(", "itertools.combinations(", "itertools.permutations(")) for x in srcs):
        ctx.violated(DC, "DataCombination.values", what, detail=srcs, expected="itertools.product(*self._items)")
    else:
        ctx.form(False, DC, "DataCombination.values", what, detail=srcs)
    ys = [y for y in ast.walk(it) if isinstance(y, ast.Yield)]
    if len(ys) != 1 or not isinstance(ys[0].value, ast.Tuple) or len(ys[0].value.elts) != 2:
        ctx.unrecognised(DC, "DataCombination.items", "yield", "yield keys, values not found")
        return
    vals = ys[0].value.elts[1]
    comp = vals.args[0] if isinstance(vals, ast.Call) and dotted_name(vals.func) == "tuple" and vals.args else vals
    if not isinstance(comp, (ast.ListComp, ast.GeneratorExp)) or len(comp.generators) != 1:
        ctx.unrecognised(DC, "DataCombination.items", "value tuple", norm(vals))
        return
    var = norm(comp.generators[0].target)
    src = norm(comp.generators[0].iter)
    rng = src if src != "iditems" else next((norm(a.value) for a in ast.walk(it) if isinstance(a, ast.Assign) and norm(a.targets[0]) == "iditems"), src)
    kv = norm(ys[0].value.elts[0])
    ctx.form(norm(comp.elt) == f"self._items[{var}][{kv}[{var}]]", DC, "DataCombination.items", "value i is taken from list i at key component i", detail=norm(comp.elt),
              expected=f"self._items[{var}][{kv}[{var}]]")
    ctx.form(rng == "range(len(self._items))", DC, "DataCombination.items", "every list contributes one component, in order", detail=rng)


RULES = [
    ("C20.R1", "keyed ParameterTable: writers of _keys/_data; store adds the key only when new and never reorders; delete removes from both; positional access through the key list", r1_paired_fields),
    ("C20.R2", "RowCollector: append writes value n to column n for every column (dict rows re-ordered, unknown keys raise); sort applies one index vector to every column in both modes", r2_row_collector),
    ("C20.R3", "DataPlotGrid: (row, col) = (i div ncols, i mod ncols) resp. (i mod nrows, i div nrows) transposed for every (missing, transpose, data kind), also through helpers; missing range and nrows", r3_grid),
    ("C20.R4", "DataCombination: product over ranges / lists; items pairs list i with key component i", r4_combination),
]
