"""C06 — quantity arithmetic. Decided: (R1) reflected operators pass operands in the right
order and wrap plain numbers; (R2) operator shapes: product multiplies magnitudes and adds unit
exponents, quotient divides and subtracts, power raises the magnitude to the float value of the
exponent and scales the exponents by the exponent as given (int, pair or Fraction), negation keeps
units, sum/difference carry the left operand's units and take the magnitude from the claiming unit
type, which refuses different dimensions and converts the right operand to the left operand's
units; (R3) exponent algebra and rational arithmetic (shared with C03) including that a float
exponent never reaches the truncating Fraction constructor; (R4) folding of cancelled units:
when the total dimension vanishes every dimensional unit contributes its factor and disappears,
dimensionless units stay; (R5) magnitude value terms l op r in the float and Decimal branches.
NOT decided: that these compose to numerically equal base-dimension values; numpy broadcasting. Also: every add/sub a registered unit type resolves to refuses operands of different dimension (sibling agreement), and only the factors of dropped units are folded into the number."""
import ast

from ..model import AnalysisError, dotted_name, methods, norm, walk_no_nested
from ..predtable import Handler, Unrecognised, run_block
from ..symexec import NONE, execute
from ..symexpr import NotSymbolic, SymEval, Term, func
from ..unittables import UNIT_TYPES_PY
from . import C03, C08
from . import common as K

from . import C07 as _C07

LEVEL_TEXT = ("static analysis (ast): operand-order tables of the operator methods, symbolic shapes of the magnitude and "
              "unit-exponent terms each operator builds, decision table of the unit-folding block, guards of the unit "
              "types' add/sub; shared exponent/fraction identities from C03 and magnitude value terms from C08")
LEVEL_NOTE = "trusted: numpy ufunc dispatch calls the dunder methods analysed; composition of the clauses is not proved"
TECHNIQUE = "ast operand-order tables + symbolic term shapes + decision table (static analysis)"

Q = "src/scinumtools/units/quantity.py"
UT = UNIT_TYPES_PY
OPS = {"add": "+", "sub": "-", "mul": "*", "truediv": "/"}


def _ret_call(fn):
    b = K.body_nodoc(fn)
    if b and isinstance(b[-1], ast.Return) and isinstance(b[-1].value, ast.Call):
        return b[-1].value
    return None


def r1_reflected(ctx):
    """Value-level: on every path the dunder returns self._<op>(A, B) where the own operand is `self` and the other one
    is the argument itself (when it is a Quantity) or Quantity(argument) (when it is not), in the order the operator
    demands.  Local names, helpers and the spelling of the wrapping test do not matter."""
    from ..flowexpr import consistent, paths
    n = 0
    for op in OPS:
        for refl, own_first in ((f"__{op}__", True), (f"__r{op}__", False)):
            fn = ctx.fn(Q, f"Quantity.{refl}")
            arg = fn.args.args[1].arg if len(fn.args.args) == 2 else None
            if arg is None:
                ctx.unrecognised(Q, f"Quantity.{refl}", "delegation", "signature")
                continue
            ps = paths(fn)
            rows, unk, bad_shape = {}, [], []
            for isq in (True, False):
                cs, u = consistent(ps, lambda e, _i=isq: _i if norm(e) == f"isinstance({arg}, Quantity)" else None)
                unk += u
                for q in cs:
                    r = next((e.resolved for e in q.events if e.kind == "return"), None)
                    if not (isinstance(r, ast.Call) and dotted_name(r.func) == f"self._{op}" and len(r.args) == 2):
                        bad_shape.append(norm(r)[:80] if r is not None else None)
                        continue
                    from ..flowexpr import reduce_ifexp
                    val = lambda e, _i=isq: _i if norm(e) == f"isinstance({arg}, Quantity)" else None   # noqa: E731
                    rows.setdefault(isq, set()).add((norm(reduce_ifexp(r.args[0], val)), norm(reduce_ifexp(r.args[1], val))))
            if unk or bad_shape or not rows.get(True) or not rows.get(False):
                ctx.unrecognised(Q, f"Quantity.{refl}", "delegation", f"not `return self._{op}(a, b)` on every path ({(unk + bad_shape)[:1]})")
                continue
            n += 1
            other = {True: arg, False: f"Quantity({arg})"}
            want = {i: {("self", other[i]) if own_first else (other[i], "self")} for i in (True, False)}
            order_ok = all(all((a == "self") == own_first and (b == "self") != own_first for a, b in rows[i]) for i in rows)
            ctx.check(order_ok, Q, f"Quantity.{refl}", "operand order handed to the shared implementation",
                      detail=sorted(rows[True] | rows[False]), expected=["self", "other"] if own_first else ["other", "self"])
            if order_ok:
                undecided = any("isinstance(" in t for i in rows for pair in rows[i] for t in pair)
                if undecided:
                    ctx.form(False, Q, f"Quantity.{refl}", "a plain number operand is wrapped into a quantity", detail={str(k): sorted(v) for k, v in rows.items()})
                else:
                  ctx.check(rows == want, Q, f"Quantity.{refl}", "a plain number operand is wrapped into a quantity",
                          detail={str(k): sorted(v) for k, v in rows.items()}, expected={str(k): sorted(v) for k, v in want.items()})
    ctx.floor("operator dunders", n, 8)


def _straight(fn, env):
    """Straight-line symbolic execution; returns (env, return node)."""
    def decide(node, h):
        return None
    h, sig = execute(fn, decide, env)
    return h


def _decimal_cells(ctx):
    """Binary helpers of Magnitude take the exact (Decimal) path when either operand is a Decimal; the other path applies
    the float operator to both values and raises TypeError for a float next to a Decimal.  The guard is folded over the
    four (left is Decimal, right is Decimal) cells: it has to be true in the three cells that contain a Decimal."""
    from ..flowexpr import truth
    MGF = "src/scinumtools/units/magnitude.py"
    c = ctx.repo.cls(MGF, "Magnitude")
    n = 0
    for mname, fn in methods(c).items():
        if len(fn.args.args) != 3:
            continue
        _, a, b = (x.arg for x in fn.args.args)
        for i in [x for x in ast.walk(fn) if isinstance(x, ast.If) and "Decimal" in norm(x.test)]:
            n += 1
            what = "the exact path is taken when either operand is a Decimal (a float next to a Decimal is not multiplied as floats)"
            cells, und = {}, False
            for la in (True, False):
                for rb in (True, False):
                    def atom(e, la=la, rb=rb):
                        if isinstance(e, ast.Call) and norm(e.func) == "isinstance" and len(e.args) == 2 and norm(e.args[0]) in (f"{a}.value", f"{b}.value"):
                            ts = e.args[1].elts if isinstance(e.args[1], ast.Tuple) else [e.args[1]]
                            if all(norm(t) == "Decimal" for t in ts):
                                return la if norm(e.args[0]) == f"{a}.value" else rb
                        return None
                    v = truth(i.test, atom)
                    if v is None:
                        und = True
                    cells[f"left {'Decimal' if la else 'float'}, right {'Decimal' if rb else 'float'}"] = v
            if und:
                ctx.form(False, MGF, f"Magnitude.{mname}", what, detail=norm(i.test))
                continue
            bad = {k: v for k, v in cells.items() if ("Decimal" in k) != v}
            if bad:
                ctx.violated(MGF, f"Magnitude.{mname}", what, detail={norm(i.test): bad}, expected=f"isinstance({a}.value, Decimal) or isinstance({b}.value, Decimal)")
            else:
                ctx.holds(MGF, f"Magnitude.{mname}", what, detail=norm(i.test))
    ctx.floor("Decimal guards of Magnitude's binary helpers", n, 4, file=MGF)


def r2_shapes(ctx):
    _decimal_cells(ctx)
    lm, rm, lb, rb = (Term.sym(x) for x in ("lm", "rm", "lb", "rb"))
    env = {"left.magnitude": lm, "right.magnitude": rm, "left.baseunits": lb, "right.baseunits": rb}
    for name, wm, wb in (("_mul", lm * rm, lb + rb), ("_truediv", lm / rm, lb - rb)):
        fn = ctx.fn(Q, f"Quantity.{name}")
        try:
            h = _straight(fn, dict(env))
            if not (h.returned and isinstance(h.ret, ast.Call) and dotted_name(h.ret.func) == "Quantity" and len(h.ret.args) == 2):
                raise Unrecognised("does not return Quantity(magnitude, baseunits)")
            gm, gb = h.value(h.ret.args[0]), h.value(h.ret.args[1])
        except (Unrecognised, NotSymbolic) as e:
            ctx.unrecognised(Q, f"Quantity.{name}", "result terms", str(e))
            continue
        ctx.check(gm.equals(wm), Q, f"Quantity.{name}", "magnitude term", detail=gm.key(), expected=wm.key())
        ctx.check(gb.equals(wb), Q, f"Quantity.{name}", "unit-exponent term", detail=gb.key(), expected=wb.key())
    # negation
    fn = ctx.fn(Q, "Quantity.__neg__")
    c = _ret_call(fn)
    if c is not None and dotted_name(c.func) == "Quantity" and len(c.args) == 2:
        ev = SymEval({"self.magnitude": Term.sym("sm"), "self.baseunits": Term.sym("sb")})
        gm, gb = ev.ev(c.args[0]), ev.ev(c.args[1])
        ctx.check(gm.equals(-Term.sym("sm")) and gb.equals(Term.sym("sb")), Q, "Quantity.__neg__", "negated magnitude, same units",
                  detail=[gm.key(), gb.key()])
    else:
        ctx.unrecognised(Q, "Quantity.__neg__", "result", "not `return Quantity(m, u)`")
    # power: exponent ladder
    fn = ctx.fn(Q, "Quantity.__pow__")
    p = fn.args.args[1].arg
    for kind in ("tuple", "Fraction", "number"):
        def decide(node, h, kind=kind):
            s = norm(node)
            if s == f"isinstance({p}, tuple)":
                return kind == "tuple"
            if s == f"isinstance({p}, Fraction)":
                return kind == "Fraction"
            return None
        env2 = {"self.magnitude": Term.sym("sm"), "self.baseunits": Term.sym("sb"), p: Term.sym("p"),
                f"{p}[0]": Term.sym("p0"), f"{p}[1]": Term.sym("p1")}
        try:
            h, sig = execute(fn, decide, env2)
            if not (h.returned and isinstance(h.ret, ast.Call) and dotted_name(h.ret.func) == "Quantity" and len(h.ret.args) == 2):
                raise Unrecognised("does not return Quantity(magnitude, baseunits)")
            gm, gb = h.value(h.ret.args[0]), h.value(h.ret.args[1])
        except (Unrecognised, NotSymbolic) as e:
            ctx.unrecognised(Q, "Quantity.__pow__", f"exponent kind {kind}", str(e))
            continue
        sm, sb, P = Term.sym("sm"), Term.sym("sb"), Term.sym("p")
        e = {"tuple": Term.sym("p0") / Term.sym("p1"), "Fraction": func(f"{p}.value"), "number": P}[kind]
        ctx.check(gm.equals(func("pow", sm, e)), Q, "Quantity.__pow__", f"magnitude ** float value of the exponent ({kind})",
                  detail=gm.key(), expected=func("pow", sm, e).key())
        ctx.check(gb.equals(sb * P), Q, "Quantity.__pow__", f"unit exponents scaled by the exponent as given ({kind})", detail=gb.key(),
                  expected=(sb * P).key())
    # sum / difference
    for name, meth in (("_add", "add"), ("_sub", "sub")):
        fn = ctx.fn(Q, f"Quantity.{name}")
        loops = [n for n in fn.body if isinstance(n, ast.For) and norm(n.iter) == "UNIT_TYPES"]
        if len(loops) != 1:
            ctx.unrecognised(Q, f"Quantity.{name}", "type loop", "loop over UNIT_TYPES not found")
            continue
        src = [norm(s) for s in ast.walk(loops[0]) if isinstance(s, (ast.Assign, ast.Return, ast.NamedExpr))]
        ctor = [s for s in src if "utype(" in s]
        ctx.check(any("utype(left.baseunits, right.baseunits)" in s for s in ctor), Q, f"Quantity.{name}",
                  "the unit type is offered (left units, right units)", detail=ctor)
        calls = [c for c in ast.walk(loops[0]) if isinstance(c, ast.Call) and isinstance(c.func, ast.Attribute) and c.func.attr in ("add", "sub")]
        ok = len(calls) == 1 and calls[0].func.attr == meth and [norm(a) for a in calls[0].args] == ["left", "right"]
        ctx.check(ok, Q, f"Quantity.{name}", f"magnitude comes from the unit type's {meth}(left, right)", detail=[norm(c) for c in calls])
        ret = [r for r in ast.walk(loops[0]) if isinstance(r, ast.Return)]
        bu = [s for s in ast.walk(loops[0]) if isinstance(s, ast.Assign) and norm(s.targets[0]) == "baseunits"]
        ok = len(ret) == 1 and norm(ret[0].value) == "Quantity(magnitude, baseunits)" and len(bu) == 1
        if ok:
            ctx.check(norm(bu[0].value) == "left.baseunits", Q, f"Quantity.{name}", "the result carries the left operand's units",
                      detail=norm(bu[0].value), expected="left.baseunits")
        else:
            ctx.unrecognised(Q, f"Quantity.{name}", "result", "Quantity(magnitude, baseunits) with one baseunits assignment not found")
    # every add/sub a registered unit type resolves to (own or inherited) refuses operands of different dimension
    from ..flowexpr import consistent, paths as _paths
    from ..unittables import module_const as _mc
    seen_defs = set()
    for t in _mc(ctx.repo, "UNIT_TYPES"):
        for name in ("add", "sub"):
            r = ctx.repo.method(t.module, t.node, name)
            if r is None:
                ctx.violated(t.module.relpath, t.name, f"{name}: defined for the unit type", detail="no definition along the MRO")
                continue
            m_, c_, f_ = r
            key = (m_.relpath, c_.name, name)
            if key in seen_defs:
                continue
            seen_defs.add(key)
            ctx.functions_analysed.add(f"{m_.relpath}::{c_.name}.{name}")
            D1, D2 = "self.baseunits1.dimensions", "self.baseunits2.dimensions"
            cs, unk = consistent(_paths(f_), lambda e: {f"{D1} != {D2}": True, f"{D2} != {D1}": True, f"{D1} == {D2}": False, f"{D2} == {D1}": False,
                                                         "self.baseunits1.units != self.baseunits2.units": False, "self.baseunits1.units == self.baseunits2.units": True}.get(norm(e)))
            tested = any(D1 in norm(e.resolved) and D2 in norm(e.resolved) for q in _paths(f_) for e in q.tests())
            if unk:
                ctx.unrecognised(m_.relpath, f"{c_.name}.{name}", "operands of different dimension are refused", f"test not decided: {sorted(set(unk))[0][:80]}")
            elif not tested:
                ctx.violated(m_.relpath, f"{c_.name}.{name}", "operands of different dimension are refused", detail="no comparison of the two dimension vectors on any path",
                             expected="if self.baseunits1.dimensions != self.baseunits2.dimensions: raise  (the type also claims reciprocal dimensions for conversion)")
            else:
                ctx.check(bool(cs) and all(q.status == "raise" for q in cs), m_.relpath, f"{c_.name}.{name}", "operands of different dimension are refused",
                          detail=sorted({str(q.status) for q in cs}))
    for name, op in (("add", ast.Add), ("sub", ast.Sub)):
        fn = ctx.fn(UT, f"UnitType.{name}")
        u1, u2 = [a.arg for a in fn.args.args[1:3]]
        body = K.body_nodoc(fn)
        guards = [s for s in body if isinstance(s, ast.If) and any(isinstance(x, ast.Raise) for x in s.body)]
        gt = [norm(g.test) for g in guards]
        ok = any(t in ("self.baseunits1.dimensions != self.baseunits2.dimensions", "not self.baseunits1.dimensions == self.baseunits2.dimensions")
                 for t in gt)
        ctx.check(ok, UT, f"UnitType.{name}", "operands of different dimension are refused before anything is computed", detail=gt or None,
                  expected="if self.baseunits1.dimensions != self.baseunits2.dimensions: raise")
        ret = body[-1] if body and isinstance(body[-1], ast.Return) else None
        if ret is None or not isinstance(ret.value, ast.BinOp):
            ctx.unrecognised(UT, f"UnitType.{name}", "result", "not `return a <op> b`")
            continue
        b = ret.value
        conv = b.right
        ok_conv = isinstance(conv, ast.Call) and isinstance(conv.func, ast.Attribute) and conv.func.attr == "_convert" and \
            [norm(a) for a in conv.args] == [f"{u2}.magnitude", f"{u2}.baseunits", f"{u1}.baseunits"] and dotted_name(conv.func.value) == u2
        if norm(b.left) != f"{u1}.magnitude" or not isinstance(conv, ast.Call):
            ctx.unrecognised(UT, f"UnitType.{name}", "result", f"shape {norm(b)}")
            continue
        ctx.check(isinstance(b.op, op), UT, f"UnitType.{name}", "left magnitude op converted right magnitude", detail=type(b.op).__name__)
        ctx.check(ok_conv, UT, f"UnitType.{name}", "the right operand is converted into the left operand's units (out of place)", detail=norm(conv),
                  expected=f"{u2}._convert({u2}.magnitude, {u2}.baseunits, {u1}.baseunits)")


class FoldHandler(Handler):
    def __init__(self, total_nodim, unit_nodim):
        super().__init__()
        self.tot, self.unit = total_nodim, unit_nodim
        self.kept, self.folded, self.cont = False, False, False

    def test(self, node):
        s = norm(node)
        if s == "self.baseunits.dimensions.nodim":
            return self.tot
        if s in ("base.dimensions.nodim", "get_unit_base(unitid, exp).dimensions.nodim"):
            return self.unit
        if s in ("not base.dimensions.nodim", "not get_unit_base(unitid, exp).dimensions.nodim"):
            return not self.unit
        return None

    def stmt(self, node):
        s = norm(node)
        if s == "baseunits[unitid] = exp":
            self.kept = True
        elif s in ("self.magnitude *= base.magnitude", "self.magnitude = self.magnitude * base.magnitude"):
            self.folded = True
        elif s in ("base = get_unit_base(unitid, exp)", "baseunits = {}", "self.baseunits = BaseUnits(baseunits)"):
            self.actions.append(s)
        else:
            raise Unrecognised(f"statement {s}")

    def compound(self, st):
        if isinstance(st, ast.For) and norm(st.iter) == "self.baseunits.baseunits.items()" and norm(st.target) == "(unitid, exp)":
            sig = run_block(st.body, self)
            return "fall"
        raise Unrecognised(f"compound {type(st).__name__}")


def r4_folding(ctx):
    fn = ctx.fn(Q, "Quantity.__init__")
    blocks = [s for s in fn.body if isinstance(s, ast.If) and norm(s.test) == "self.baseunits.dimensions.nodim"]
    if len(blocks) != 1:
        ctx.unrecognised(Q, "Quantity.__init__", "folding block", "`if self.baseunits.dimensions.nodim:` not found")
        return
    ctx.form(fn.body[-1] is blocks[0], Q, "Quantity.__init__", "folding happens after magnitude and units are set")
    for tot in (True, False):
        for unit in (True, False):
            h = FoldHandler(tot, unit)
            cell = f"total dimensionless={tot} unit dimensionless={unit}"
            try:
                run_block([blocks[0]], h)
            except Unrecognised as e:
                ctx.unrecognised(Q, "Quantity.__init__", cell, str(e))
                continue
            got = {"kept": h.kept, "folded": h.folded, "rebuilt": "self.baseunits = BaseUnits(baseunits)" in h.actions}
            if not tot:
                want = {"kept": False, "folded": False, "rebuilt": False}
            elif unit:
                want = {"kept": True, "folded": False, "rebuilt": True}
            else:
                want = {"kept": False, "folded": True, "rebuilt": True}
            ctx.check(got == want, Q, "Quantity.__init__", f"folding cell {cell}", detail=got, expected=want)
    # value-level complement: every factor multiplied into the number inside the folding block is the factor of one
    # *dropped* unit - in particular not the total factor of all units, which also contains the kept ones
    from ..flowexpr import Explorer, PathState
    try:
        ex_ = Explorer()
        ps_ = ex_.block([blocks[0]], [PathState()])
    except AnalysisError as e:
        ps_ = None
    if ps_ is not None:
        factors = set()
        for lst in list(ex_.iterations_all.values()) + [[(None, 0, ps_)]]:
            for lp_, st_, its_ in lst:
                for q in its_:
                    for e in q.events[st_:]:
                        if e.kind == "store" and e.extra == "self.magnitude":
                            factors.add((lp_ is not None, norm(e.resolved)))
        total = sorted({f for inloop, f in factors if "self.baseunits.magnitude" in f})
        per_unit = sorted({f for inloop, f in factors if "@loop" in f and "get_unit_base(" in f and "self.baseunits.magnitude" not in f})
        if not total and any(f not in per_unit for _, f in factors):
            per_unit = []          # some other factor: not interpreted
        if total:
            ctx.violated(Q, "Quantity.__init__", "the factor folded into the number is the product of the dropped units only",
                         detail=sorted(total), expected="self.magnitude *= get_unit_base(unitid, exp).magnitude for each dropped unit")
        elif per_unit:
            ctx.holds(Q, "Quantity.__init__", "the factor folded into the number is the product of the dropped units only", detail=sorted(per_unit)[:2])
        else:
            ctx.unrecognised(Q, "Quantity.__init__", "the factor folded into the number is the product of the dropped units only", f"writes to self.magnitude: {sorted(factors)[:2]}")
    s = norm(fn)
    ctx.form("atom = UnitSolver(baseunits)" in s and "self.magnitude *= atom.magnitude" in s and "self.baseunits = BaseUnits(atom.baseunits)" in s,
             Q, "Quantity.__init__", "a unit string contributes its numeric factor to the magnitude and its exponents to the units")


def r3_exponents(ctx):
    C03.r4_unit_base(ctx)           # factor of a unit = table factor ** exponent for every id form (shared with C03.R4)
    C03.r3_exponent_algebra(ctx)
    C03.r6_fraction(ctx)


def r5_values(ctx):
    K.conversion_roles(ctx)          # the converted number and its source units come from the same object (shared)
    C08.r2_sum_rule(ctx)
    l, r = Term.sym("l"), Term.sym("r")
    for m, w in (("_mul", l * r), ("_truediv", l / r)):
        for dec in (False, True):
            try:
                v, e = C08._cell_error(ctx, m, True, True, decimal=dec)
                ctx.check(v.equals(w), C08.MAG, f"Magnitude.{m}", f"value term (decimal={dec})", detail=v.key(), expected=w.key())
            except (Unrecognised, NotSymbolic) as ex:
                ctx.unrecognised(C08.MAG, f"Magnitude.{m}", "value term", str(ex))
    fn = ctx.fn(C08.MAG, "Magnitude.__pow__")
    b = [norm(s) for s in K.body_nodoc(fn)]
    p = fn.args.args[1].arg
    ctx.form(f"value = self.value ** {p}" in b, C08.MAG, "Magnitude.__pow__", "value ** exponent")
    fn = ctx.fn(C08.MAG, "Magnitude.__neg__")
    c = _ret_call(fn)
    if c is not None and dotted_name(c.func) == "Magnitude" and c.args:
        v = SymEval({"self.value": Term.sym("v")}).ev(c.args[0])
        ctx.check(v.equals(-Term.sym("v")), C08.MAG, "Magnitude.__neg__", "negated value", detail=v.key())
    else:
        ctx.unrecognised(C08.MAG, "Magnitude.__neg__", "value", "not `return Magnitude(...)`")


def r6_operands_intact(ctx):
    _C07.r1_no_operand_mutation(ctx)
    # `q *= r` has to be `q = q * r` (cancelled units folded by Quantity.__init__), `exp += e` a new Fraction: an
    # in-place operator on a value class bypasses that and writes into exponents other quantities share (C07.R4)
    _C07.r4_value_objects(ctx)


RULES = [
    ("C06.R1", "reflected operators hand (self, other) resp. (other, self) to the shared implementation; plain numbers are wrapped", r1_reflected),
    ("C06.R2", "operator shapes: product/quotient/power/negation terms; sum/difference take the left units, the claiming type's add/sub(left, right), dimension guard, out-of-place conversion of the right operand", r2_shapes),
    ("C06.R3", "exponent algebra of Atom/BaseUnits and rational arithmetic of Fraction (identities per operand kind; no float into the truncating constructor)", r3_exponents),
    ("C06.R4", "folding of cancelled units: decision table over (total dimensionless, unit dimensionless)", r4_folding),
    ("C06.R5", "magnitude value terms l op r in float and Decimal branches; power and negation", r5_values),
    ("C06.R6", "arithmetic leaves its operands intact, so repeated use of an operand keeps agreeing with its base-dimension value (effect analysis shared with C07.R1)", r6_operands_intact),
]
