"""C09 — custom units never outlive their scope. Decided as who-may-write + do/undo pairing
+ all-exits rules: (R1) the only statements in the whole package that mutate the process-wide
unit tables are in UnitEnvironment.__init__/close; (R2) every table mutation of __init__ is
immediately followed, in the same block, by recording its key, and close() undoes each
recorded key on the same table; (R3) every table mutation and every statement that may raise
after one lies inside a try whose handler calls close() and re-raises, with the undo lists
initialised before; (R4) every UnitEnvironment in the package is the context expression of a
`with` (or closed in a finally) and __exit__ closes unconditionally; (R5) no with-body reaches
a second registration of the same units through methods of the same object. Together these
cover every nesting, every exception in a body and every failure point of registration.
NOT decided: user code that mutates the tables directly."""
import ast

from ..model import AnalysisError, dotted_name, enclosing_function, methods, norm, qualname, walk_no_nested
from . import common as K

LEVEL_TEXT = ("static analysis (ast): whole-package who-may-write scan of the global unit tables, do/undo pairing of "
              "the registration loop, try/handler coverage of every failure point after the first mutation, lexical "
              "scoping of every UnitEnvironment construction; structural arguments over all exits and all nestings")
LEVEL_NOTE = ("trusted: table objects are reached only through their module-level names and aliases resolved by the "
              "scan (no reflection/getattr access); user code outside the package is out of scope")
TECHNIQUE = "who-may-write / do-undo pairing / all-exits try coverage over ast (static analysis)"

UE = "src/scinumtools/units/unit_environment.py"
TABLES = {"UNIT_STANDARD", "UNIT_PREFIXES", "UNIT_TYPES", "QUANTITY_UNITS", "QUANTITY_LIST"}
DEFINING = {"src/scinumtools/units/settings.py", "src/scinumtools/units/unit_list.py"}
MUT = {"append", "insert", "remove", "pop", "clear", "update", "extend", "sort", "reverse", "setdefault", "popitem",
       "__setitem__", "__delitem__", "add", "discard"}


def _root(node):
    while isinstance(node, (ast.Attribute, ast.Subscript, ast.Call)):
        node = node.func if isinstance(node, ast.Call) else node.value
    return node.id if isinstance(node, ast.Name) else None


def table_mutations(scope, aliases=None):
    """Statements under `scope` that mutate a global table (directly, through a local alias, or through a row)."""
    aliases = dict(aliases or {})
    rows = {}
    # local aliases / row aliases (flow-insensitive within the scope)
    for n in ast.walk(scope):
        if isinstance(n, ast.Assign) and len(n.targets) == 1 and isinstance(n.targets[0], ast.Name):
            r = _root(n.value)
            if isinstance(n.value, ast.Name) and n.value.id in TABLES:
                aliases[n.targets[0].id] = n.value.id
            elif r in TABLES and isinstance(n.value, ast.Subscript):
                rows[n.targets[0].id] = r
        if isinstance(n, (ast.For, ast.comprehension)):
            it = n.iter
            r = _root(it)
            if r in TABLES or aliases.get(r) in TABLES:
                tb = r if r in TABLES else aliases[r]
                meth = it.func.attr if isinstance(it, ast.Call) and isinstance(it.func, ast.Attribute) else None
                tg = n.target
                if meth == "items" and isinstance(tg, ast.Tuple) and len(tg.elts) == 2 and isinstance(tg.elts[1], ast.Name):
                    rows[tg.elts[1].id] = tb
                elif meth in ("values", None) and isinstance(tg, ast.Name) and meth == "values":
                    rows[tg.id] = tb
    out = []

    def tb_of(name):
        if name in TABLES:
            return name
        if name in aliases:
            return aliases[name]
        return None

    for n in ast.walk(scope):
        tgts, kind = [], None
        if isinstance(n, ast.Assign):
            tgts, kind = n.targets, "store"
        elif isinstance(n, (ast.AugAssign, ast.AnnAssign)):
            tgts, kind = [n.target], "store"
        elif isinstance(n, ast.Delete):
            tgts, kind = n.targets, "del"
        for t in tgts:
            for e in (t.elts if isinstance(t, (ast.Tuple, ast.List)) else [t]):
                if isinstance(e, (ast.Subscript, ast.Attribute)):
                    r = _root(e)
                    tb = tb_of(r)
                    if tb:
                        key = norm(e.slice) if isinstance(e, ast.Subscript) and _root(e.value) == r and isinstance(e.value, ast.Name) else None
                        out.append((n, tb, kind, key))
                    elif r in rows and isinstance(e, ast.Attribute):
                        out.append((n, rows[r], "row-" + kind, None))
                elif isinstance(e, ast.Name) and e.id in TABLES and isinstance(scope, (ast.FunctionDef, ast.AsyncFunctionDef)):
                    if any(isinstance(g, ast.Global) and e.id in g.names for g in ast.walk(scope)):
                        out.append((n, e.id, "rebind", None))
        if isinstance(n, ast.Call) and isinstance(n.func, ast.Attribute) and n.func.attr in MUT:
            r = _root(n.func.value)
            tb = tb_of(r)
            if tb:
                direct = isinstance(n.func.value, ast.Name)
                key = None
                if direct and n.args:
                    key = norm(n.args[1]) if n.func.attr == "insert" and len(n.args) > 1 else norm(n.args[0])
                out.append((n, tb, n.func.attr if direct else "nested-" + n.func.attr, key))
            elif r in rows:
                out.append((n, rows[r], "row-" + n.func.attr, None))
    return out


def _stmt_of(node):
    while not isinstance(node, ast.stmt):
        node = node._parent
    return node


# ---------------------------------------------------------------- R1
def r1_single_writer(ctx):
    subs = ["src/scinumtools"]
    if ctx.tier == "thorough":
        subs += ["tools", "docs"]
    nfiles = nwriters = 0
    for sub in subs:
        if not (ctx.repo.root / sub).is_dir():
            continue
        for rel in ctx.repo.all_py(sub):
            try:
                mod = ctx.repo.module(rel)
            except AnalysisError:
                continue
            nfiles += 1
            for node, tb, kind, key in table_mutations(mod.tree):
                fn = enclosing_function(node)
                q = qualname(fn) if fn is not None else "<module>"
                st = _stmt_of(node)
                if rel in DEFINING and fn is None:
                    continue      # initial construction of the tables
                nwriters += 1
                allowed = rel == UE and q in ("UnitEnvironment.__init__", "UnitEnvironment.close")
                ctx.check(allowed, rel, q, f"writes {tb}: {norm(st)[:100]}", detail=kind,
                          expected="global unit tables are written only by UnitEnvironment.__init__/close")
    ctx.info["files_scanned"] = nfiles
    ctx.floor("table writer statements", nwriters, 4)
    # positive control: the detector recognises a writer in a fixture that must always match
    fix = ast.parse("from scinumtools.units.settings import *\n"
                    "def f(x):\n    UNIT_STANDARD.append(x, (1, [0]*8, None, x, False))\n"
                    "    t = UNIT_PREFIXES\n    del t['k']\n"
                    "    for s, u in UNIT_STANDARD.items():\n        u.prefixes = True\n")
    for n in ast.walk(fix):
        for c in ast.iter_child_nodes(n):
            c._parent = n
    got = sorted(k for _, _, k, _ in table_mutations(fix))
    if got != ["append", "del", "row-store"]:
        raise AnalysisError(f"writer detector self-check failed: {got}")
    ctx.holds("-", "fixture", "writer detector recognises direct, aliased and row writes", detail=got, trivial=True)


# ---------------------------------------------------------------- R2 / R3
def _init_close(ctx):
    return ctx.fn(UE, "UnitEnvironment.__init__"), ctx.fn(UE, "UnitEnvironment.close")


def _next_sibling(st):
    p = st._parent
    for blk in ("body", "orelse", "finalbody"):
        b = getattr(p, blk, None)
        if isinstance(b, list) and st in b:
            i = b.index(st)
            return b[i + 1] if i + 1 < len(b) else None
    return None


def r2_pairing(ctx):
    _close_reaches_both(ctx)
    init, close = _init_close(ctx)
    muts = table_mutations(init)
    if not muts:
        raise AnalysisError("no table mutation found in UnitEnvironment.__init__")
    pairs = {}
    for node, tb, kind, key in muts:
        st = _stmt_of(node)
        nxt = _next_sibling(st)
        rec = None
        if nxt is not None and isinstance(nxt, ast.Expr) and isinstance(nxt.value, ast.Call) \
                and isinstance(nxt.value.func, ast.Attribute) and nxt.value.func.attr == "append":
            d = dotted_name(nxt.value.func.value)
            if d and d.startswith("self.") and len(nxt.value.args) == 1:
                rec = (d[5:], norm(nxt.value.args[0]))
        ok = rec is not None and key is not None and rec[1] == key and kind in ("append", "insert")
        ctx.check(ok, UE, "UnitEnvironment.__init__", f"mutation of {tb} is recorded at once: {norm(st)[:80]}",
                  detail={"kind": kind, "key": key, "next_statement": norm(nxt)[:80] if nxt is not None else None},
                  expected="the very next statement of the same block appends the same key to an undo list of self")
        if ok:
            pairs[rec[0]] = (tb, kind)
    # undo lists exist before anything can fail
    first_try = next((s for s in init.body if isinstance(s, ast.Try)), None)
    pre = init.body[: init.body.index(first_try)] if first_try is not None else init.body
    for lst in pairs:
        ok = any(norm(s) == f"self.{lst} = []" for s in pre)
        ctx.check(ok, UE, "UnitEnvironment.__init__", f"undo list self.{lst} is initialised before registration starts")
    # close() undoes each list on its table
    for lst, (tb, kind) in pairs.items():
        loops = [s for s in close.body if isinstance(s, ast.For) and norm(s.iter) in (f"self.{lst}", f"reversed(self.{lst})", f"list(self.{lst})")]
        ok = False
        det = None
        if len(loops) == 1 and isinstance(loops[0].target, ast.Name):
            v = loops[0].target.id
            body = [norm(s) for s in loops[0].body]
            det = body
            want = {"append": [f"del {tb}[{v}]"], "insert": [f"{tb}.remove({v})"]}[kind]
            alt = {"append": [f"{tb}.pop({v})"], "insert": [f"{tb}.remove({v})"]}[kind]
            ok = body in (want, alt)
        ctx.check(ok, UE, "UnitEnvironment.close", f"undoes self.{lst} on {tb}", detail=det,
                  expected=f"for v in self.{lst}: inverse of {kind} on {tb}")
    # close() mutates nothing else
    for node, tb, kind, key in table_mutations(close):
        st = _stmt_of(node)
        inloop = isinstance(st._parent, ast.For) and any(norm(st._parent.iter).endswith(f"self.{l}") or f"self.{l}" in norm(st._parent.iter) for l in pairs)
        ctx.check(inloop, UE, "UnitEnvironment.close", f"table write belongs to an undo loop: {norm(st)[:80]}")


def _may_raise(st):
    if isinstance(st, ast.Raise):
        return True
    for n in ast.walk(st):
        if isinstance(n, (ast.Call, ast.Subscript, ast.Raise, ast.Assert)):
            return True
    return False


def r3_undo_on_failure(ctx):
    _handler_catches_all(ctx)
    init, close = _init_close(ctx)
    muts = [_stmt_of(n) for n, *_ in table_mutations(init)]
    if not muts:
        raise AnalysisError("no table mutation found in UnitEnvironment.__init__")

    def protecting(tr):
        for h in tr.handlers:
            tname = None if h.type is None else norm(h.type)
            if tname in (None, "BaseException", "Exception"):
                calls = [norm(s) for s in h.body]
                if "self.close()" in calls and any(isinstance(s, ast.Raise) and s.exc is None for s in h.body) \
                        and calls.index("self.close()") < [i for i, s in enumerate(h.body) if isinstance(s, ast.Raise)][0]:
                    return tname
        return False

    def inside_protecting_try(st):
        p = st
        while p is not init:
            par = p._parent
            if isinstance(par, ast.Try) and p in par.body and protecting(par) is not False:
                return protecting(par) or "bare"
            p = par
        return None

    for m in muts:
        ctx.check(inside_protecting_try(m) is not None, UE, "UnitEnvironment.__init__",
                  f"mutation is inside a try whose handler undoes and re-raises: {norm(m)[:80]}")
    # leaf statements (simple statements and the tests/iterables of compound ones) that may raise and are not
    # protected are acceptable only before the first mutation and outside any loop that contains a mutation
    first = min(muts, key=lambda s: (s.lineno, s.col_offset))

    def loops_of(st):
        out, p = [], st
        while p is not init:
            p = p._parent
            if isinstance(p, (ast.For, ast.While)):
                out.append(p)
        return out
    mut_loops = {id(l) for m in muts for l in loops_of(m)}
    unprotected = []
    for st in ast.walk(init):
        if not isinstance(st, ast.stmt) or st is init:
            continue
        if isinstance(st, (ast.If, ast.While)):
            probe, risky = st, _may_raise(ast.Expr(value=st.test))
        elif isinstance(st, ast.For):
            probe, risky = st, _may_raise(ast.Expr(value=st.iter))
        elif isinstance(st, (ast.Try, ast.With, ast.FunctionDef, ast.ClassDef)):
            continue
        else:
            probe, risky = st, _may_raise(st)
        if not risky:
            continue
        # statements inside an except handler run after the failure was caught
        p, in_handler = probe, False
        while p is not init:
            if isinstance(p, ast.ExceptHandler):
                in_handler = True
            p = p._parent
        if in_handler:
            continue
        if inside_protecting_try(probe) is not None:
            continue
        before = (probe.lineno, probe.col_offset) < (first.lineno, first.col_offset)
        shares_loop = any(id(l) in mut_loops for l in loops_of(probe))
        if not before or shares_loop:
            unprotected.append(probe)
    ctx.check(not unprotected, UE, "UnitEnvironment.__init__",
              "no statement that may raise runs after a table mutation outside the undoing try",
              detail=[norm(s)[:80] for s in unprotected[:6]] or None,
              expected="duplicate check, uniqueness check, malformed definitions and the table's own append are all covered")
    # the uniqueness check runs inside the protected region
    calls = [c for c in ast.walk(init) if isinstance(c, ast.Call) and dotted_name(c.func) == "check_unique_symbols"]
    ctx.check(len(calls) == 1 and inside_protecting_try(_stmt_of(calls[0])) is not None, UE, "UnitEnvironment.__init__",
              "symbol uniqueness is checked after registration and inside the undoing try")


# ---------------------------------------------------------------- R4 / R5
def r4_lexical_scopes(ctx):
    _conversions_get_env(ctx)
    n = 0
    subs = ["src/scinumtools"] + (["tools", "docs"] if ctx.tier == "thorough" else [])
    for sub in subs:
        if not (ctx.repo.root / sub).is_dir():
            continue
        for rel in ctx.repo.all_py(sub):
            try:
                mod = ctx.repo.module(rel)
            except AnalysisError:
                continue
            for call in ast.walk(mod.tree):
                if isinstance(call, ast.Call) and dotted_name(call.func) in ("UnitEnvironment", "units.UnitEnvironment"):
                    fn = enclosing_function(call)
                    q = qualname(fn) if fn is not None else "<module>"
                    n += 1
                    par = call._parent
                    ok = isinstance(par, ast.withitem) and par.context_expr is call
                    if isinstance(par, ast.IfExp) and call in (par.body, par.orelse) and isinstance(getattr(par, "_parent", None), ast.withitem) \
                            and par._parent.context_expr is par:
                        ok = True                # `with A if c else UnitEnvironment(...):` - the selected manager is entered at once
                    if not ok and isinstance(par, ast.Assign) and isinstance(par.targets[0], ast.Name) and fn is not None:
                        v = par.targets[0].id
                        for tr in [t for t in ast.walk(fn) if isinstance(t, ast.Try) and t.finalbody]:
                            if any(norm(s) == f"{v}.close()" for s in tr.finalbody) and tr.lineno >= par.lineno:
                                # nothing that may raise between the construction and the try
                                ok = True
                    if not ok:
                        # `scope = <...UnitEnvironment(...)...>` immediately followed by `with scope:` (nothing can raise in between)
                        st = _stmt_of(call)
                        blk = None
                        pp = getattr(st, "_parent", None)
                        for field in ("body", "orelse", "finalbody"):
                            b = getattr(pp, field, None)
                            if isinstance(b, list) and st in b:
                                blk = b
                        if isinstance(st, ast.Assign) and len(st.targets) == 1 and isinstance(st.targets[0], ast.Name) and blk is not None:
                            i = blk.index(st)
                            nxt = blk[i + 1] if i + 1 < len(blk) else None
                            if isinstance(nxt, ast.With) and any(isinstance(it.context_expr, ast.Name) and it.context_expr.id == st.targets[0].id for it in nxt.items) \
                                    and isinstance(st.value, (ast.Call, ast.IfExp)):
                                ok = True
                    ctx.check(ok, rel, q, f"scope is lexical: {norm(_stmt_of(call))[:80]}",
                              expected="with UnitEnvironment(...): ...  (or close() in a finally)")
    ctx.floor("UnitEnvironment constructions", n, 6)
    c = ctx.repo.cls(UE, "UnitEnvironment")
    ms = methods(c)
    ex = ms.get("__exit__")
    what = "closes unconditionally and does not swallow exceptions"
    if ex is None:
        ctx.violated(UE, "UnitEnvironment", what, detail="no __exit__", expected="def __exit__(...): self.close()")
    else:
        from ..flowexpr import paths as _paths
        ps = [q for q in _paths(ex) if q.status != "raise"]
        swallow = [norm(s.value) for s in ast.walk(ex) if isinstance(s, ast.Return) and s.value is not None and not (isinstance(s.value, ast.Constant) and s.value.value in (None, False))]
        skipping = [[f"{norm(t.resolved)[:50]} is {t.extra}" for t in q.tests()] for q in ps
                    if not any(e.resolved is not None and isinstance(e.resolved, ast.AST) and "self.close()" in norm(e.resolved) for e in q.events)]
        if swallow:
            ctx.violated(UE, "UnitEnvironment.__exit__", what, detail={"returns": swallow}, expected="a falsy return value: an exception of the body propagates")
        elif skipping:
            ctx.violated(UE, "UnitEnvironment.__exit__", what, detail={"paths that do not close": skipping[:2]}, expected="self.close() on every path")
        else:
            ctx.holds(UE, "UnitEnvironment.__exit__", what)
    en = ms.get("__enter__")
    rets = [norm(r.value) for r in ast.walk(en) if isinstance(r, ast.Return) and r.value is not None] if en is not None else []
    ctx.form(rets == ["self"], UE, "UnitEnvironment.__enter__", "returns self", detail=rets)


def r5_no_reentry(ctx):
    n = 0
    for mod in ctx.repo.all_modules():
        for cname, c in mod.classes.items():
            ms = methods(c)
            for mname, fn in ms.items():
                for w in [x for x in walk_no_nested(fn) if isinstance(x, ast.With)]:
                    items = [it for it in w.items if isinstance(it.context_expr, ast.Call)
                             and dotted_name(it.context_expr.func) == "UnitEnvironment"]
                    if not items:
                        continue
                    n += 1
                    arg = norm(items[0].context_expr.args[0]) if items[0].context_expr.args else ""
                    # methods of the same object reachable from the body (called or handed over as callbacks)
                    seen, todo, hit = set(), [], []
                    for st in w.body:
                        for a in ast.walk(st):
                            if isinstance(a, ast.Attribute) and isinstance(a.value, ast.Name) and a.value.id == "self" and a.attr in ms:
                                todo.append(a.attr)
                            if isinstance(a, ast.Call) and dotted_name(a.func) == "UnitEnvironment":
                                hit.append(f"{mname} (nested in the body)")
                    while todo:
                        m = todo.pop()
                        if m in seen:
                            continue
                        seen.add(m)
                        for a in ast.walk(ms[m]):
                            if isinstance(a, ast.Call) and dotted_name(a.func) == "UnitEnvironment":
                                hit.append(m)
                            if isinstance(a, ast.Attribute) and isinstance(a.value, ast.Name) and a.value.id == "self" and a.attr in ms:
                                todo.append(a.attr)
                    ctx.functions_analysed.add(f"{mod.relpath}::{cname}.{mname}")
                    ctx.check(not hit, mod.relpath, f"{cname}.{mname}", f"scope over {arg} is not re-entered from its own body",
                              detail=sorted(set(hit)) or None,
                              expected="registering the same symbols twice raises 'already exists'")
    ctx.floor("with-scopes inside classes", n, 5)


UNITS_STATE_OWNERS = {
    # the three process-wide tables: written by the registration and its undo only (C09.R1 decides what they may do to them)
    "UNIT_STANDARD": {"UnitEnvironment.__init__", "UnitEnvironment.close"},
    "UNIT_TYPES": {"UnitEnvironment.__init__", "UnitEnvironment.close"},
    "UNIT_PREFIXES": {"UnitEnvironment.__init__", "UnitEnvironment.close"},
    # registry of NumPy handlers filled at import time by the @implements decorator; holds no unit data
    "HANDLED_FUNCTIONS": {"implements", "implements.decorator", "decorator"},
}


def r6_no_derived_state(ctx):
    """Besides the registered tables nothing in the units package (nor in the DIP layer that opens unit scopes) is
    process-wide mutable state: a memo of factors, dimensions, parsed symbols or ratios derived from the tables keeps
    serving a custom unit's old definition after its scope ended and the symbol was registered again."""
    K.hidden_module_state(ctx, ["src/scinumtools/units", "src/scinumtools/dip"], UNITS_STATE_OWNERS,
                          "a value derived from the unit tables must not outlive the scope that registered the unit")


def _handler_catches_all(ctx):
    """The rollback of a failed registration sits in an except clause.  It has to run for *every* way the registration
    can stop - also KeyboardInterrupt / SystemExit - so the clause is bare or names BaseException; `except Exception`
    leaves the units registered when the loop is interrupted."""
    fn = ctx.fn(UE, "UnitEnvironment.__init__")
    what = "the rollback handler of the registration catches every exception (bare except / BaseException)"
    hs = [h for t in ast.walk(fn) if isinstance(t, ast.Try) for h in t.handlers if any(isinstance(c, ast.Call) and norm(c.func) == "self.close" for c in ast.walk(h))]
    fin = [t for t in ast.walk(fn) if isinstance(t, ast.Try) and any(isinstance(c, ast.Call) and norm(c.func) == "self.close" for f_ in t.finalbody for c in ast.walk(f_))]
    if not hs and not fin:
        ctx.form(False, UE, "UnitEnvironment.__init__", what, detail="no handler that calls self.close()")
        return
    for h in hs:
        t = None if h.type is None else norm(h.type)
        if t is None or t == "BaseException":
            ctx.holds(UE, "UnitEnvironment.__init__", what)
        elif t in ("Exception", "(Exception,)") or t.startswith("("):
            ctx.violated(UE, "UnitEnvironment.__init__", what, detail=f"except {t}", expected="except: / except BaseException:")
        else:
            ctx.violated(UE, "UnitEnvironment.__init__", what, detail=f"except {t}", expected="except: / except BaseException:")


def _conversions_get_env(ctx):
    """NumberType.convert(unit, env) opens the custom-unit scope itself - but only when it is handed the environment.
    The node classes call it outside any lexical scope, so each of their calls has to pass the environment on;
    otherwise a unit defined in the same text is unknown exactly there."""
    n = 0
    for mod in ctx.repo.all_modules("src/scinumtools/dip/nodes"):
        for fn in [x for x in ast.walk(mod.tree) if isinstance(x, (ast.FunctionDef, ast.AsyncFunctionDef))]:
            scoped = {id(c) for w in ast.walk(fn) if isinstance(w, ast.With) and any("UnitEnvironment(" in norm(i.context_expr) for i in w.items) for c in ast.walk(w)}
            for c in ast.walk(fn):
                if isinstance(c, ast.Call) and isinstance(c.func, ast.Attribute) and c.func.attr == "convert" and norm(c.func.value) not in ("self",) and id(c) not in scoped:
                    n += 1
                    has_env = len(c.args) >= 2 or any(k.arg == "env" for k in c.keywords)
                    what = "a unit conversion of a node value outside a lexical unit scope is handed the environment"
                    if has_env:
                        ctx.holds(mod.relpath, qualname(fn), what)
                    else:
                        ctx.violated(mod.relpath, qualname(fn), what, detail=norm(c)[:80], expected=f"{norm(c.func)}(<unit>, env)")
    ctx.floor("conversions of node values in dip/nodes", n, 3)


def _close_reaches_both(ctx):
    """close() undoes two lists - the registered symbols and the inserted conversion types.  Every path through it
    that does not raise walks both (a registration can fail after a type was inserted and before any symbol was)."""
    from ..flowexpr import explore
    fn = ctx.fn(UE, "UnitEnvironment.close")
    ex = explore(fn)
    what = "close() walks the recorded symbols and the recorded conversion types on every path"
    for q in ex.paths:
        if q.status == "raise":
            continue
        loops = {norm(e.resolved) for e in q.events if e.kind == "loop" and e.resolved is not None}
        text = " ".join(sorted(loops)) + " " + " ".join(norm(e.resolved) for e in q.events if e.kind in ("expr", "assign", "store") and e.resolved is not None and isinstance(e.resolved, ast.AST))
        missing = [f for f in ("self.new_units", "self.new_types") if f not in text]
        guards = [(norm(t.resolved), t.extra) for t in q.tests()]
        if not missing:
            ctx.holds(UE, "UnitEnvironment.close", what)
            continue
        proven = all(any((g == f"not {f}" and v) or (g == f and not v) or (g == f"len({f}) == 0" and v) for g, v in guards) for f in missing)
        if proven:
            ctx.holds(UE, "UnitEnvironment.close", what)
        else:
            ctx.violated(UE, "UnitEnvironment.close", what, detail={"not walked": missing, "under": [f"{g} is {v}" for g, v in guards]},
                         expected="both undo loops run unless their own list is empty")


def r7_duplicate_check(ctx):
    """Appending to the unit table under an existing symbol replaces the entry, and close() then deletes it: the
    table would lose a built-in (or an enclosing scope's) unit.  So on every path of the registration loop that
    reaches the append, the symbol was tested against the table and found absent."""
    import re as _re
    from ..flowexpr import explore
    fn = ctx.fn(UE, "UnitEnvironment.__init__")
    ex = explore(fn)
    what = "every registration path tests the symbol against the unit table before appending"
    seen = 0
    for lp, start, its in ex.iterations.values():
        for q in its:
            apps = [e for e in q.events[start:] if e.resolved is not None and isinstance(e.resolved, ast.AST) and any(
                isinstance(c, ast.Call) and norm(c.func) == "UNIT_STANDARD.append" for c in ast.walk(e.resolved))]
            if not apps:
                continue
            seen += 1
            sym = None
            for c in ast.walk(apps[0].resolved):
                if isinstance(c, ast.Call) and norm(c.func) == "UNIT_STANDARD.append" and c.args:
                    sym = norm(c.args[0])
            tested = False
            for t in q.tests():
                k = norm(t.resolved)
                if k == f"{sym} in UNIT_STANDARD" and t.extra is False or k == f"{sym} not in UNIT_STANDARD" and t.extra is True:
                    tested = True
            if tested:
                ctx.holds(UE, "UnitEnvironment.__init__", what)
            else:
                others = [norm(t.resolved) + f" -> {t.extra}" for t in q.tests()][:4]
                ctx.violated(UE, "UnitEnvironment.__init__", what, detail={"path reaches": norm(apps[0].resolved)[:70], "tests on this path": others},
                             expected=f"if {sym} in UNIT_STANDARD: raise")
    ctx.form(seen >= 1, UE, "UnitEnvironment.__init__", "the registration loop with the append to the unit table is found")


RULES = [
    ("C09.R1", "who-may-write: only UnitEnvironment.__init__/close mutate UNIT_STANDARD/UNIT_PREFIXES/UNIT_TYPES/QUANTITY_* (direct, aliased, row-level, container calls)", r1_single_writer),
    ("C09.R2", "do/undo pairing: each table mutation is followed at once, in the same block, by recording its key; close() applies the inverse operation per recorded key on the same table and writes nothing else", r2_pairing),
    ("C09.R3", "all exits of registration: every mutation and every may-raise statement after one is inside a try whose handler calls close() and re-raises", r3_undo_on_failure),
    ("C09.R4", "every UnitEnvironment construction is a with-context (or closed in a finally); __exit__ closes unconditionally", r4_lexical_scopes),
    ("C09.R5", "no with-scope is re-entered with the same units from methods of the same object reachable from its body", r5_no_reentry),
    ("C09.R7", "every path of the registration loop that appends to the unit table has tested the symbol against the table (an existing entry would be replaced and then deleted by close())", r7_duplicate_check),
    ("C09.R6", "who-may-hold-state: besides the registered tables no module-level container of units/ or dip/ is written from a function and no function is memoised (a memo of table-derived values outlives the scope)", r6_no_derived_state),
]
