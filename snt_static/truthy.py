"""Truthiness-where-None-is-meant lint.

A bare truth test (`if x`, `not x`, `x and ...`, `... if x else ...`, `while x`) on an expression that
carries a *value* whose legitimate contents include falsy ones (0, 0.0, False, '', []) conflates
"missing" with "falsy".  The lint reports such tests for a given set of tracked expressions.
Expressions inside comparisons, calls, subscripts or `is None` tests are not bare uses.
"""
import ast

from .model import norm


def _bare_operands(test):
    """Sub-expressions whose truth value decides `test`."""
    if isinstance(test, ast.BoolOp):
        out = []
        for v in test.values:
            out += _bare_operands(v)
        return out
    if isinstance(test, ast.UnaryOp) and isinstance(test.op, ast.Not):
        return _bare_operands(test.operand)
    if isinstance(test, ast.NamedExpr):
        return [test.target, *(_bare_operands(test.value))]
    return [test]


def truth_tests(fn):
    """(test node, owner node) for every place a value is used as a condition in fn."""
    out = []
    for n in ast.walk(fn):
        if isinstance(n, (ast.If, ast.While, ast.IfExp)):
            out.append((n.test, n))
        elif isinstance(n, ast.Assert):
            out.append((n.test, n))
        elif isinstance(n, ast.comprehension):
            for c in n.ifs:
                out.append((c, n))
        elif isinstance(n, ast.BoolOp) and not isinstance(getattr(n, "_parent", None), (ast.If, ast.While, ast.IfExp, ast.BoolOp, ast.UnaryOp)):
            # `a and b` used as a value: its operands are still truth-tested
            out.append((n, n))
    return out


def bare_truth_uses(fn, tracked):
    """List of (expression text, test text) where a tracked expression is truth-tested bare.
    `tracked` is a predicate on normalised expression text."""
    hits = []
    seen = set()
    for test, owner in truth_tests(fn):
        for op in _bare_operands(test):
            if isinstance(op, (ast.Name, ast.Attribute, ast.Subscript)):
                s = norm(op)
                if tracked(s) and (s, id(test)) not in seen:
                    seen.add((s, id(test)))
                    hits.append((s, norm(test)[:120], getattr(op, "lineno", 0)))
    return hits
