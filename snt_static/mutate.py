"""Mutation sensitivity of a rule set (thorough tier and tools/mutscore.py).

First-order syntactic mutants of the functions a property's rules analyse are generated from the AST, written to
scratch copies of the tree and the rule set is evaluated on each (statically - nothing is executed).  A mutant is
*killed* when the rule set reports a violation the unchanged tree does not have, *unrecognised* when it only
reports analysis errors, *survived* when it stays silent.  Survivors are either equivalent mutants, changes outside
what the property states, or gaps of the rule set; the list is an instrument for strengthening rules and is
recorded in the evidence.  It never changes a verdict.
"""
import ast
import os
import shutil
import tempfile
from pathlib import Path

CMP = {ast.Eq: ast.NotEq, ast.NotEq: ast.Eq, ast.Lt: ast.LtE, ast.LtE: ast.Lt, ast.Gt: ast.GtE, ast.GtE: ast.Gt,
       ast.In: ast.NotIn, ast.NotIn: ast.In, ast.Is: ast.IsNot, ast.IsNot: ast.Is}
CMP2 = {ast.Lt: ast.Gt, ast.Gt: ast.Lt, ast.LtE: ast.GtE, ast.GtE: ast.LtE}
BIN = {ast.Add: ast.Sub, ast.Sub: ast.Add, ast.Mult: ast.Div, ast.Div: ast.Mult, ast.Mod: ast.FloorDiv, ast.FloorDiv: ast.Mod, ast.Pow: ast.Mult}


def _functions(tree):
    out = {}

    def rec(node, prefix):
        for st in node.body:
            if isinstance(st, (ast.FunctionDef, ast.AsyncFunctionDef)):
                out[prefix + st.name] = st
                rec(st, prefix + st.name + ".")
            elif isinstance(st, ast.ClassDef):
                rec(st, prefix + st.name + ".")
    rec(tree, "")
    return out


def mutants_of_function(src, qual, limit=None):
    """Yield (description, mutated source) for first-order mutants inside function `qual` of the module source."""
    tree = ast.parse(src)
    fns = _functions(tree)
    if qual not in fns:
        return
    fn = fns[qual]
    sites = []
    for n in ast.walk(fn):
        if isinstance(n, ast.Compare) and len(n.ops) == 1:
            if type(n.ops[0]) in CMP:
                sites.append(("cmp", n))
            if type(n.ops[0]) in CMP2:
                sites.append(("cmp2", n))
        elif isinstance(n, ast.BinOp) and type(n.op) in BIN and not (isinstance(n.op, ast.Mod) and isinstance(n.left, ast.Constant) and isinstance(n.left.value, str)) \
                and not (isinstance(n.op, ast.Add) and (isinstance(n.left, (ast.Constant, ast.JoinedStr)) and isinstance(getattr(n.left, "value", None), str)
                                                          or isinstance(n.right, (ast.Constant, ast.JoinedStr)) and isinstance(getattr(n.right, "value", None), str))):
            sites.append(("bin", n))
        elif isinstance(n, ast.BoolOp):
            sites.append(("bool", n))
        elif isinstance(n, ast.UnaryOp) and isinstance(n.op, ast.Not):
            sites.append(("not", n))
        elif isinstance(n, ast.UnaryOp) and isinstance(n.op, ast.USub) and not isinstance(n.operand, ast.Constant):
            sites.append(("neg", n))
        elif isinstance(n, ast.Constant) and isinstance(n.value, int) and not isinstance(n.value, bool) and abs(n.value) < 1000:
            sites.append(("int", n))
        elif isinstance(n, ast.Constant) and isinstance(n.value, bool):
            sites.append(("boolc", n))
        elif isinstance(n, ast.If) and not n.orelse and len(n.body) == 1 and isinstance(n.body[0], (ast.Raise,)):
            sites.append(("dropguard", n))
        elif isinstance(n, (ast.Break, ast.Continue)):
            sites.append(("loopctl", n))
        elif isinstance(n, ast.Call) and len(n.args) == 2 and not n.keywords and not any(isinstance(a, ast.Starred) for a in n.args) \
                and ast.dump(n.args[0]) != ast.dump(n.args[1]):
            sites.append(("swapargs", n))
        elif isinstance(n, ast.Expr) and isinstance(n.value, ast.Call) and not (isinstance(n.value.func, ast.Name) and n.value.func.id == "print"):
            sites.append(("dropcall", n))
        elif isinstance(n, ast.AugAssign):
            sites.append(("dropaug", n))
        elif isinstance(n, ast.Subscript) and isinstance(n.slice, ast.Slice):
            sites.append(("slice", n))
    k = 0
    for kind, node in sites:
        if limit is not None and k >= limit:
            return
        undo = None
        desc = None
        if kind == "cmp":
            old = node.ops[0]
            node.ops[0] = CMP[type(old)]()
            desc = f"{type(old).__name__}->{type(node.ops[0]).__name__}"
            undo = lambda n=node, o=old: n.ops.__setitem__(0, o)   # noqa: E731
        elif kind == "cmp2":
            old = node.ops[0]
            node.ops[0] = CMP2[type(old)]()
            desc = f"{type(old).__name__}->{type(node.ops[0]).__name__}"
            undo = lambda n=node, o=old: n.ops.__setitem__(0, o)   # noqa: E731
        elif kind == "bin":
            old = node.op
            node.op = BIN[type(old)]()
            desc = f"{type(old).__name__}->{type(node.op).__name__}"
            undo = lambda n=node, o=old: setattr(n, "op", o)   # noqa: E731
        elif kind == "bool":
            old = node.op
            node.op = ast.Or() if isinstance(old, ast.And) else ast.And()
            desc = f"{type(old).__name__}->{type(node.op).__name__}"
            undo = lambda n=node, o=old: setattr(n, "op", o)   # noqa: E731
        elif kind == "not":
            old = node.op
            node.op = ast.UAdd()
            desc = "drop not"
            # `+x` is not boolean negation; express as bool(x) through double not
            inner = node.operand
            node.op = ast.Not()
            node.operand = ast.UnaryOp(op=ast.Not(), operand=inner)
            undo = lambda n=node, i=inner: (setattr(n, "op", ast.Not()), setattr(n, "operand", i))   # noqa: E731
        elif kind == "neg":
            inner = node.operand
            node.op = ast.UAdd()
            desc = "drop unary minus"
            undo = lambda n=node: setattr(n, "op", ast.USub())   # noqa: E731
        elif kind == "int":
            old = node.value
            node.value = old + 1
            desc = f"{old}->{old + 1}"
            undo = lambda n=node, o=old: setattr(n, "value", o)   # noqa: E731
        elif kind == "boolc":
            old = node.value
            node.value = not old
            desc = f"{old}->{not old}"
            undo = lambda n=node, o=old: setattr(n, "value", o)   # noqa: E731
        elif kind == "dropguard":
            old = node.body
            node.body = [ast.Pass()]
            desc = "guard no longer raises"
            undo = lambda n=node, o=old: setattr(n, "body", o)   # noqa: E731
        elif kind == "loopctl":
            # replace break<->continue
            parent = None
            for p in ast.walk(fn):
                for f, v in ast.iter_fields(p):
                    if isinstance(v, list) and any(x is node for x in v):
                        parent, field = p, f
            if parent is None:
                continue
            lst = getattr(parent, field)
            i = [j for j, x in enumerate(lst) if x is node][0]
            lst[i] = ast.Pass()
            desc = f"drop {type(node).__name__.lower()}"
            undo = lambda l=lst, i=i, n=node: l.__setitem__(i, n)   # noqa: E731
        elif kind == "swapargs":
            node.args[0], node.args[1] = node.args[1], node.args[0]
            desc = "swap the two call arguments"
            undo = lambda n=node: n.args.reverse()   # noqa: E731
        elif kind in ("dropcall", "dropaug"):
            parent = None
            for p in ast.walk(fn):
                for f, v in ast.iter_fields(p):
                    if isinstance(v, list) and any(x is node for x in v):
                        parent, field = p, f
            if parent is None:
                continue
            lst = getattr(parent, field)
            i = [j for j, x in enumerate(lst) if x is node][0]
            lst[i] = ast.Pass()
            desc = "drop statement"
            undo = lambda l=lst, i=i, n=node: l.__setitem__(i, n)   # noqa: E731
        elif kind == "slice":
            sl = node.slice
            if sl.lower is None:
                sl.lower = ast.Constant(value=1)
                desc = "slice lower None->1"
                undo = lambda s=sl: setattr(s, "lower", None)   # noqa: E731
            elif sl.upper is None:
                sl.upper = ast.UnaryOp(op=ast.USub(), operand=ast.Constant(value=1))
                desc = "slice upper None->-1"
                undo = lambda s=sl: setattr(s, "upper", None)   # noqa: E731
            else:
                continue
        if desc is None:
            continue
        try:
            text = ast.unparse(node if not isinstance(node, (ast.Break, ast.Continue)) else ast.Pass())
        except Exception:
            text = "?"
        line = getattr(node, "lineno", 0)
        try:
            out = ast.unparse(tree)
        except Exception:
            out = None
        undo()
        if out is not None:
            k += 1
            yield (f"{kind}: {desc} at line {line}: {' '.join(text.split())[:70]}", out)


def _eval_one(args):
    prop, rel, qual, desc, new_src, base_root, baseline = args
    from importlib import import_module
    from .report import UNRECOGNISED, VIOLATED, evaluate
    rules = import_module(f"snt_static.rules.{prop}").RULES
    tmp = tempfile.mkdtemp(prefix="snt_mut_")
    try:
        for sub in ("src", "docs"):
            s = Path(base_root) / sub
            if s.is_dir():
                # hard-link copy is enough: only one file is replaced
                shutil.copytree(s, Path(tmp) / sub, copy_function=os.link)
        target = Path(tmp) / rel
        target.unlink()
        target.write_text(new_src)
        ctx = evaluate(prop, rules, "quick", root=tmp)
        newv = sorted({i.key for i in ctx.instances if i.verdict == VIOLATED} - baseline)
        unrec = [i.key for i in ctx.instances if i.verdict == UNRECOGNISED]
        status = "killed" if newv else ("unrecognised" if unrec else "survived")
        return {"file": rel, "function": qual, "mutation": desc, "status": status, "by": (newv or unrec)[:1]}
    except Exception as e:      # machinery problem: reported, never a verdict
        return {"file": rel, "function": qual, "mutation": desc, "status": "error", "by": [f"{type(e).__name__}: {e}"[:120]]}
    finally:
        shutil.rmtree(tmp, ignore_errors=True)


def sensitivity(prop, functions, base_root, baseline_keys, per_function=12, jobs=None, total=400):
    """functions: iterable of 'relpath::Qual.name'. -> summary dict."""
    from multiprocessing import Pool
    work = []
    for f in sorted(functions):
        if "::" not in f:
            continue
        rel, qual = f.split("::", 1)
        p = Path(base_root) / rel
        if not p.is_file():
            continue
        try:
            src = p.read_text()
            for desc, new_src in mutants_of_function(src, qual, per_function):
                work.append((prop, rel, qual, desc, new_src, str(base_root), set(baseline_keys)))
        except SyntaxError:
            continue
    if len(work) > total:
        step = len(work) / total
        work = [work[int(i * step)] for i in range(total)]
    if not work:
        return {"mutants": 0}
    with Pool(jobs or min(16, os.cpu_count() or 4)) as pool:
        res = pool.map(_eval_one, work, chunksize=2)
    out = {"mutants": len(res)}
    for s in ("killed", "unrecognised", "survived", "error"):
        out[s] = sum(1 for r in res if r["status"] == s)
    out["survivors"] = [f"{r['file']}::{r['function']}: {r['mutation']}" for r in res if r["status"] == "survived"][:200]
    out["errors"] = [r for r in res if r["status"] == "error"][:5]
    out["note"] = ("first-order syntactic mutants of the analysed functions, evaluated statically; survivors are equivalent mutants, "
                   "changes outside the property's clauses, or gaps of the rule set")
    return out
