"""Extraction of the expression-solver configurations (operator dict + step table)
used across the package, with symbols resolved through inheritance."""
import ast

from .literal import ClassRef, Evaluator, NotLiteral
from .model import AnalysisError, dotted_name, enclosing_function, norm, qualname

SOLVER = "src/scinumtools/solver/solver.py"
OPERATORS = "src/scinumtools/solver/operators.py"
TOKENS = "src/scinumtools/solver/tokens.py"
OTYPE_NAMES = {0: "ARGS", 1: "UNARY", 2: "BINARY", 3: "TERNARY"}


class Config:
    def __init__(self, name, relpath, qual, operators, steps, atom_node, module):
        self.name = name              # e.g. default / unit_solver.UnitSolver
        self.relpath, self.qual = relpath, qual
        self.operators = operators    # ordered dict name -> ClassRef
        self.steps = steps            # list of (otype_name, [names])
        self.atom_node = atom_node
        self.module = module

    def symbol(self, repo, cref, attr="symbol"):
        r = repo.class_attr(cref.module, cref.node, attr)
        if r is None:
            raise AnalysisError(f"class {cref.name} has no literal {attr}")
        return Evaluator(repo, r[0]).ev(r[1])


def _otype_map(repo):
    m = repo.module(OPERATORS)
    if "Otype" not in m.classes:
        raise AnalysisError("Otype enum missing")
    out = {}
    for st in m.classes["Otype"].body:
        if isinstance(st, ast.Assign) and isinstance(st.targets[0], ast.Name) and isinstance(st.value, ast.Constant):
            out[st.value.value] = st.targets[0].id
    return out


def _eval_steps(repo, module, node):
    omap = _otype_map(repo)
    steps = Evaluator(repo, module).ev(node)
    out = []
    for s in steps:
        if not isinstance(s, dict) or "operators" not in s or "otype" not in s:
            raise AnalysisError("step entry without operators/otype")
        ot = s["otype"]
        out.append((omap.get(ot, str(ot)), list(s["operators"])))
    return out


def _default_expr(node):
    """`x if x else <lit>` / `x or <lit>` -> <lit> node"""
    if isinstance(node, ast.IfExp):
        return node.orelse
    if isinstance(node, ast.BoolOp) and isinstance(node.op, ast.Or) and len(node.values) == 2:
        return node.values[1]
    return node


def default_config(repo):
    init = repo.func(SOLVER, "ExpressionSolver.__init__")
    mod = repo.module(SOLVER)
    ops_node = steps_node = None
    for st in ast.walk(init):
        if isinstance(st, ast.Assign) and len(st.targets) == 1:
            t = dotted_name(st.targets[0])
            if t == "self.operators":
                ops_node = _default_expr(st.value)
            elif t == "self.steps":
                steps_node = _default_expr(st.value)
    if ops_node is None or steps_node is None:
        raise AnalysisError("default operators/steps assignment not found in ExpressionSolver.__init__")
    ops = Evaluator(repo, mod).ev(ops_node)
    if not isinstance(ops, dict) or not all(isinstance(v, ClassRef) for v in ops.values()):
        raise AnalysisError("default operator table is not a dict of classes")
    return Config("default", SOLVER, "ExpressionSolver.__init__", ops, _eval_steps(repo, mod, steps_node), None, mod)


def _local_value(fn, name, before):
    """Last assignment `name = <expr>` in fn located before node `before` (by position)."""
    best = None
    for st in ast.walk(fn):
        if isinstance(st, ast.Assign) and len(st.targets) == 1 and isinstance(st.targets[0], ast.Name) \
                and st.targets[0].id == name and (st.lineno, st.col_offset) < (before.lineno, before.col_offset):
            if best is None or (st.lineno, st.col_offset) > (best.lineno, best.col_offset):
                best = st
    return best.value if best is not None else None


def derived_configs(repo):
    """All `ExpressionSolver(atom, operators[, steps])` constructions outside solver.py."""
    default = default_config(repo)
    out = []
    for mod in repo.all_modules():
        if mod.relpath == SOLVER:
            continue
        for call in ast.walk(mod.tree):
            if not (isinstance(call, ast.Call) and dotted_name(call.func) == "ExpressionSolver"):
                continue
            fn = enclosing_function(call)
            args = list(call.args)
            kw = {k.arg: k.value for k in call.keywords}
            atom = args[0] if args else kw.get("atom")
            opn = args[1] if len(args) > 1 else kw.get("operators")
            stn = args[2] if len(args) > 2 else kw.get("steps")
            where = qualname(fn) if fn is not None else "<module>"

            def res(n):
                if isinstance(n, ast.Name) and fn is not None:
                    v = _local_value(fn, n.id, call)
                    if v is not None:
                        return v
                return n
            if opn is None:
                ops = default.operators
            else:
                ops = Evaluator(repo, mod).ev(res(opn))
                if not isinstance(ops, dict) or not all(isinstance(v, ClassRef) for v in ops.values()):
                    raise AnalysisError(f"operator table at {mod.relpath}:{where} is not a dict of classes")
            steps = default.steps if stn is None else _eval_steps(repo, mod, res(stn))
            out.append(Config(f"{mod.relpath.split('/')[-1][:-3]}.{where}", mod.relpath, where, ops, steps, atom, mod))
    return out


def all_configs(repo):
    return [default_config(repo)] + derived_configs(repo)
