"""Robustness of a rule set against behaviour-preserving rewrites (thorough tier and tools/equivscore.py).

The counterpart of mutate.py: first-order *semantics-preserving* rewrites of the functions a property's rules analyse
are generated from the AST, written to scratch copies of the tree and the rule set is evaluated on each (statically -
nothing is executed).  Since the behaviour is unchanged, the only correct outcomes are *silent* (every instance still
holds) and *unrecognised* (the rule set says it cannot read the new form, exit 2).  A *false-violation* is a defect
of the rule set: the site is reported so that it can be corrected.  The instrument never changes a verdict.

Every rewrite below preserves the behaviour of any Python program (no assumption about types) unless stated:

  swap-if        if c: A else: B            ->  if not c: B else: A
  nest-and       if a and b: A   (no else)  ->  if a: if b: A
  ifexp-stmt     x = A if c else B          ->  if c: x = A else: x = B
  ret-temp       return E                   ->  _r = E; return _r
  rename         a local (assigned, not a parameter, not global/nonlocal) renamed consistently
  isinst-split   isinstance(x, (A, B))      ->  isinstance(x, A) or isinstance(x, B)
  hoist-const    an immutable literal (str/number/tuple of those) becomes a module-level constant
  comp-loop      x = [E for v in IT if C]   ->  x = []; for v_ in IT: if C: x.append(E)   (fresh loop variable)
  demorgan       not (a and b) in a test    ->  not a or not b
  flip-cmp       A < B -> B > A for comparisons against a literal constant (the literal has no reflected method of
                 its own that could differ: int/float/str/None constants)
  polarity       if x is None: A else: B    ->  if x is not None: B else: A      (is / is not / in / not in only)
  tail-else      if c: ...return/raise; REST -> if c: ...return/raise  else: REST
  un-else        if c: ...return/raise else: B -> if c: ...return/raise; B
  test-temp      if E:                      ->  _t = E; if _t:
  store-temp     obj.attr = E               ->  _t = E; obj.attr = _t            (the right-hand side is evaluated first anyway)
  delegate       the whole body moved into a new method/function with the same parameters, the original returns its call
  docstring      a docstring added where there is none
  swap-ifexp     A if c else B              ->  B if not c else A
  in-tuple-list  x in (a, b)                <-> x in [a, b]
  in-to-or       x in ('a', 'b')            ->  x == 'a' or x == 'b'             (string/number literals only)
  ret-ifexp      return A if c else B       ->  if c: return A / return B
  extract        one or two consecutive top-level statements moved into a new helper; parameters are the locals they
                 mention that are bound before, results the locals they bind that are read afterwards
  loop-comp      x = []; for v in IT: x.append(E)   ->  x = [E for v in IT]          (v not used afterwards)
  swap-stmts     two adjacent assignments of call-free expressions to distinct plain names that do not mention each other
  while-true     while c: B                 ->  while True: if not c: break; B       (no else clause)
  dict-call      {'k': v, ...}              ->  dict(k=v, ...)                       (identifier keys)
"""
import ast
import copy
import os
import shutil
import tempfile
from pathlib import Path

from .mutate import _functions

FLIP = {ast.Lt: ast.Gt, ast.Gt: ast.Lt, ast.LtE: ast.GtE, ast.GtE: ast.LtE, ast.Eq: ast.Eq, ast.NotEq: ast.NotEq}


def _parents(fn):
    par = {}
    for p in ast.walk(fn):
        for f, v in ast.iter_fields(p):
            if isinstance(v, list):
                for i, x in enumerate(v):
                    if isinstance(x, ast.AST):
                        par[id(x)] = (p, f, i)
            elif isinstance(v, ast.AST):
                par[id(v)] = (p, f, None)
    return par


def _own_nodes(fn):
    """Nodes of fn that are not inside a nested def/class (comprehensions and lambdas are included)."""
    out = []

    def rec(n, top):
        if not top and isinstance(n, (ast.FunctionDef, ast.AsyncFunctionDef, ast.ClassDef)):
            return
        out.append(n)
        for c in ast.iter_child_nodes(n):
            rec(c, False)
    rec(fn, True)
    return out


def _locals(fn):
    """Names assigned in fn (plain stores, loop targets, with targets) that are safe to rename."""
    params = {a.arg for a in fn.args.posonlyargs + fn.args.args + fn.args.kwonlyargs}
    if fn.args.vararg:
        params.add(fn.args.vararg.arg)
    if fn.args.kwarg:
        params.add(fn.args.kwarg.arg)
    banned = set(params)
    nested_args = set()
    for n in ast.walk(fn):
        if isinstance(n, (ast.Global, ast.Nonlocal)):
            banned |= set(n.names)
        if n is not fn and isinstance(n, (ast.FunctionDef, ast.AsyncFunctionDef, ast.Lambda)):
            for a in n.args.posonlyargs + n.args.args + n.args.kwonlyargs:
                nested_args.add(a.arg)
            # a nested def assigning the same name has its own binding: leave such names alone
            if not isinstance(n, ast.Lambda):
                for m in ast.walk(n):
                    if isinstance(m, ast.Name) and isinstance(m.ctx, ast.Store):
                        banned.add(m.id)
                banned.add(n.name)
        if isinstance(n, ast.ClassDef):
            banned.add(n.name)
        if isinstance(n, ast.Call) and isinstance(n.func, ast.Name) and n.func.id in ("locals", "vars", "eval", "exec"):
            return []
        if isinstance(n, ast.ExceptHandler) and n.name:
            banned.add(n.name)
        if isinstance(n, (ast.Import, ast.ImportFrom)):
            for a in n.names:
                banned.add((a.asname or a.name).split(".")[0])
    banned |= nested_args
    comp_vars = set()
    for n in ast.walk(fn):
        if isinstance(n, ast.comprehension):
            for m in ast.walk(n.target):
                if isinstance(m, ast.Name):
                    comp_vars.add(m.id)
    names = []
    for n in _own_nodes(fn):
        if isinstance(n, ast.Name) and isinstance(n.ctx, ast.Store) and n.id not in banned and n.id not in comp_vars and n.id not in names \
                and not n.id.startswith("__"):
            names.append(n.id)
    return names


def _all_names(tree):
    return {n.id for n in ast.walk(tree) if isinstance(n, ast.Name)} | {a.arg for n in ast.walk(tree) if isinstance(n, ast.arguments)
                                                                           for a in n.posonlyargs + n.args + n.kwonlyargs}


def _immutable_literal(n):
    if isinstance(n, ast.Constant):
        return isinstance(n.value, (str, int, float)) and not isinstance(n.value, bool)
    if isinstance(n, ast.Tuple) and isinstance(n.ctx, ast.Load):
        return bool(n.elts) and all(_immutable_literal(e) for e in n.elts)
    return False


def _simple_assign(st):
    return isinstance(st, ast.Assign) and len(st.targets) == 1 and isinstance(st.targets[0], ast.Name) \
        and not any(isinstance(x, (ast.Call, ast.NamedExpr, ast.Await, ast.Yield, ast.YieldFrom, ast.Lambda, ast.ListComp, ast.SetComp, ast.DictComp, ast.GeneratorExp, ast.Subscript, ast.Attribute))
                    for x in ast.walk(st.value))


def _stores(nodes):
    out = []
    for s_ in nodes:
        for x in ast.walk(s_):
            if isinstance(x, ast.Name) and isinstance(x.ctx, (ast.Store, ast.Del)) and x.id not in out:
                out.append(x.id)
    return out


def _extractable(fn, body, i, j):
    """(params, results) if body[i:j] can be moved into a helper without changing behaviour, else None."""
    block = body[i:j]
    if not fn.args.args:
        return None
    for s_ in block:
        for x in ast.walk(s_):
            if isinstance(x, (ast.Return, ast.Yield, ast.YieldFrom, ast.Await, ast.Global, ast.Nonlocal, ast.FunctionDef, ast.AsyncFunctionDef, ast.ClassDef, ast.Lambda,
                              ast.NamedExpr, ast.Delete, ast.ListComp, ast.SetComp, ast.DictComp, ast.GeneratorExp, ast.Import, ast.ImportFrom, ast.ExceptHandler)):
                return None
            if isinstance(x, ast.Name) and x.id in ("super", "locals", "vars", "__class__"):
                return None
    # break/continue that leave the block
    def escapes(nodes, depth=0):
        for n in nodes:
            if isinstance(n, (ast.Break, ast.Continue)) and depth == 0:
                return True
            for f, v in ast.iter_fields(n):
                if isinstance(v, list) and v and isinstance(v[0], ast.stmt):
                    d = depth + (1 if isinstance(n, (ast.For, ast.While)) and f == "body" else 0)
                    if escapes(v, d):
                        return True
        return False
    if escapes(block):
        return None
    params = [a.arg for a in fn.args.posonlyargs + fn.args.args + fn.args.kwonlyargs]
    if fn.args.vararg or fn.args.kwarg:
        return None
    local = set(params) | set(_stores([fn]))
    before_def = set(params)
    for s_ in body[:i]:
        if isinstance(s_, ast.Assign):
            for t in s_.targets:
                for e in (t.elts if isinstance(t, (ast.Tuple, ast.List)) else [t]):
                    if isinstance(e, ast.Name):
                        before_def.add(e.id)
        elif isinstance(s_, ast.With):
            for it in s_.items:
                if isinstance(it.optional_vars, ast.Name):
                    before_def.add(it.optional_vars.id)
    maybe_before = set(params) | set(_stores(body[:i]))
    mentioned = []
    for s_ in block:
        for x in ast.walk(s_):
            if isinstance(x, ast.Name) and x.id in local and x.id not in mentioned:
                mentioned.append(x.id)
    written = _stores(block)
    # a local mentioned in the block that may or may not be bound before cannot be passed safely
    for n in mentioned:
        if n in maybe_before and n not in before_def:
            return None
    # a name read in the block must be bound before it or be assigned at the block's top level before any nested use: keep it simple
    top_assigned = []
    for s_ in block:
        if isinstance(s_, ast.Assign):
            for t in s_.targets:
                if isinstance(t, ast.Name):
                    top_assigned.append(t.id)
    for n in mentioned:
        if n not in before_def and n not in written:
            return None
    after_reads = {x.id for s_ in body[j:] for x in ast.walk(s_) if isinstance(x, ast.Name) and isinstance(x.ctx, ast.Load)}
    # the enclosing function may be re-entered in a loop only through body (top level) - no enclosing loop at top level
    results = [n for n in written if n in after_reads]
    for n in results:
        if n not in before_def and n not in top_assigned:
            return None
    hparams = [n for n in mentioned if n in before_def]
    if params and params[0] in ("self", "cls") and params[0] not in hparams:
        hparams = [params[0]] + hparams
    elif params and params[0] in ("self", "cls"):
        hparams = [params[0]] + [n for n in hparams if n != params[0]]
    return hparams, results


def _terminates(stmts):
    if not stmts:
        return False
    last = stmts[-1]
    if isinstance(last, (ast.Return, ast.Raise)):
        return True
    if isinstance(last, ast.If) and last.orelse:
        return _terminates(last.body) and _terminates(last.orelse)
    return False


def equivalents_of_function(src, qual, limit=None):
    """Yield (description, rewritten module source) for behaviour-preserving rewrites inside function `qual`."""
    base = ast.parse(src)
    if qual not in _functions(base):
        return
    produced = 0

    def fresh():
        t = ast.parse(src)
        return t, _functions(t)[qual]

    # enumerate sites on one tree, address them by index so that each rewrite starts from a fresh tree
    _, fn0 = fresh()
    own0 = _own_nodes(fn0)
    used = _all_names(base)
    kinds = []
    for idx, n in enumerate(own0):
        if isinstance(n, ast.If) and n.orelse:
            kinds.append(("swap-if", idx))
        if isinstance(n, ast.If) and not n.orelse and isinstance(n.test, ast.BoolOp) and isinstance(n.test.op, ast.And):
            kinds.append(("nest-and", idx))
        if isinstance(n, ast.Assign) and len(n.targets) == 1 and isinstance(n.value, ast.IfExp) and isinstance(n.targets[0], (ast.Name, ast.Attribute)):
            kinds.append(("ifexp-stmt", idx))
        if isinstance(n, ast.Return) and n.value is not None and not isinstance(n.value, (ast.Name, ast.Constant)):
            kinds.append(("ret-temp", idx))
        if isinstance(n, ast.Call) and isinstance(n.func, ast.Name) and n.func.id == "isinstance" and len(n.args) == 2 \
                and isinstance(n.args[1], ast.Tuple) and len(n.args[1].elts) >= 2 and isinstance(n.args[0], (ast.Name, ast.Attribute)):
            kinds.append(("isinst-split", idx))
        if isinstance(n, ast.Assign) and len(n.targets) == 1 and isinstance(n.targets[0], ast.Name) and isinstance(n.value, ast.ListComp) \
                and len(n.value.generators) == 1 and not n.value.generators[0].is_async and isinstance(n.value.generators[0].target, ast.Name):
            kinds.append(("comp-loop", idx))
        if isinstance(n, ast.UnaryOp) and isinstance(n.op, ast.Not) and isinstance(n.operand, ast.BoolOp):
            kinds.append(("demorgan", idx))
        if isinstance(n, ast.Compare) and len(n.ops) == 1 and type(n.ops[0]) in FLIP and isinstance(n.comparators[0], ast.Constant) \
                and not isinstance(n.left, ast.Constant) and isinstance(n.comparators[0].value, (int, float, str)):
            kinds.append(("flip-cmp", idx))
        if isinstance(n, ast.If) and n.orelse and isinstance(n.test, ast.Compare) and len(n.test.ops) == 1 and isinstance(n.test.ops[0], (ast.Is, ast.IsNot, ast.In, ast.NotIn)):
            kinds.append(("polarity", idx))
        if isinstance(n, ast.If) and not n.orelse and _terminates(n.body):
            kinds.append(("tail-else", idx))
        if isinstance(n, ast.If) and n.orelse and _terminates(n.body) and not (len(n.orelse) == 1 and isinstance(n.orelse[0], ast.If)):
            kinds.append(("un-else", idx))
        if isinstance(n, ast.If) and not isinstance(n.test, (ast.Name, ast.Constant)):
            kinds.append(("test-temp", idx))
        if isinstance(n, ast.Assign) and len(n.targets) == 1 and isinstance(n.targets[0], ast.Attribute) and not isinstance(n.value, (ast.Name, ast.Constant)):
            kinds.append(("store-temp", idx))
        if isinstance(n, ast.IfExp):
            kinds.append(("swap-ifexp", idx))
        if isinstance(n, ast.Compare) and len(n.ops) == 1 and isinstance(n.ops[0], (ast.In, ast.NotIn)) and isinstance(n.comparators[0], (ast.Tuple, ast.List)) \
                and n.comparators[0].elts:
            kinds.append(("in-tuple-list", idx))
            if isinstance(n.ops[0], ast.In) and all(isinstance(e, ast.Constant) and isinstance(e.value, (str, int)) for e in n.comparators[0].elts) \
                    and isinstance(n.left, (ast.Name, ast.Attribute)):
                kinds.append(("in-to-or", idx))
        if isinstance(n, ast.Return) and isinstance(n.value, ast.IfExp):
            kinds.append(("ret-ifexp", idx))
        if isinstance(n, ast.While) and not n.orelse and not (isinstance(n.test, ast.Constant)):
            kinds.append(("while-true", idx))
        if isinstance(n, ast.Dict) and n.keys and all(isinstance(k, ast.Constant) and isinstance(k.value, str) and k.value.isidentifier() and not __import__("keyword").iskeyword(k.value) for k in n.keys):
            kinds.append(("dict-call", idx))
    body0 = fn0.body[1:] if (fn0.body and isinstance(fn0.body[0], ast.Expr) and isinstance(fn0.body[0].value, ast.Constant)) else fn0.body
    off0 = len(fn0.body) - len(body0)
    for i in range(len(body0) - 1):
        a, b = body0[i], body0[i + 1]
        if _simple_assign(a) and _simple_assign(b):
            na, nb = a.targets[0].id, b.targets[0].id
            ra = {x.id for x in ast.walk(a.value) if isinstance(x, ast.Name)}
            rb = {x.id for x in ast.walk(b.value) if isinstance(x, ast.Name)}
            if na != nb and na not in rb and nb not in ra:
                kinds.append(("swap-stmts", i + off0))
        if isinstance(a, ast.Assign) and len(a.targets) == 1 and isinstance(a.targets[0], ast.Name) and isinstance(a.value, ast.List) and not a.value.elts \
                and isinstance(b, ast.For) and not b.orelse and isinstance(b.target, ast.Name) and len(b.body) == 1:
            kinds.append(("loop-comp", i + off0))
    ex = 0
    for i in range(len(body0)):
        for ln in (1, 2):
            if ex < 4 and i + ln <= len(body0) and _extractable(fn0, body0, i, i + ln) is not None and (ln == 2 or isinstance(body0[i], (ast.If, ast.For, ast.With, ast.Try, ast.While))):
                kinds.append(("extract", (i + off0, i + off0 + ln)))
                ex += 1
    if not any(isinstance(x, (ast.Yield, ast.YieldFrom, ast.Await)) for x in ast.walk(fn0)) and not fn0.decorator_list \
            and not any(isinstance(x, ast.Name) and x.id in ("super", "__class__") for x in ast.walk(fn0)) \
            and not fn0.args.vararg and not fn0.args.kwarg and not fn0.args.kwonlyargs and not fn0.args.posonlyargs:
        kinds.append(("delegate", 0))
    if not (fn0.body and isinstance(fn0.body[0], ast.Expr) and isinstance(fn0.body[0].value, ast.Constant) and isinstance(fn0.body[0].value.value, str)):
        kinds.append(("docstring", 0))
    hoistable = [idx for idx, n in enumerate(own0) if _immutable_literal(n) and not (isinstance(n, ast.Constant) and (n.value in (0, 1, "", -1) or (isinstance(n.value, str) and len(n.value) < 2)))]
    par0 = _parents(fn0)
    # literals inside f-strings, docstrings or tuple members already counted are skipped
    keep = []
    for idx in hoistable:
        n = own0[idx]
        p = par0.get(id(n))
        if p and isinstance(p[0], (ast.JoinedStr, ast.FormattedValue, ast.Tuple)):
            continue
        if p and isinstance(p[0], ast.Expr):
            continue     # docstring / bare literal
        if p and isinstance(p[0], ast.Subscript) and p[1] == "slice":
            continue
        keep.append(idx)
    kinds += [("hoist-const", idx) for idx in keep[:4]]
    kinds += [("rename", nm) for nm in _locals(fn0)[:4]]

    for kind, where in kinds:
        if limit is not None and produced >= limit:
            return
        tree, fn = fresh()
        own = _own_nodes(fn)
        par = _parents(fn)
        desc = None
        try:
            if kind == "rename":
                new = where + "_x"
                while new in used:
                    new += "x"
                for n in ast.walk(fn):
                    if isinstance(n, ast.Name) and n.id == where:
                        n.id = new
                desc = f"local {where} renamed to {new}"
                line = fn.lineno
            elif kind in ("swap-stmts", "loop-comp", "extract"):
                line = fn.lineno
                if kind == "swap-stmts":
                    fn.body[where], fn.body[where + 1] = fn.body[where + 1], fn.body[where]
                    line = fn.body[where].lineno
                    desc = "two independent adjacent assignments swapped"
                elif kind == "loop-comp":
                    a, b = fn.body[where], fn.body[where + 1]
                    app = b.body[0]
                    tname = a.targets[0].id
                    ok = isinstance(app, ast.Expr) and isinstance(app.value, ast.Call) and isinstance(app.value.func, ast.Attribute) and app.value.func.attr == "append" \
                        and isinstance(app.value.func.value, ast.Name) and app.value.func.value.id == tname and len(app.value.args) == 1 and not app.value.keywords
                    conds = []
                    if not ok and isinstance(app, ast.If) and not app.orelse and len(app.body) == 1:
                        inner = app.body[0]
                        ok = isinstance(inner, ast.Expr) and isinstance(inner.value, ast.Call) and isinstance(inner.value.func, ast.Attribute) and inner.value.func.attr == "append" \
                            and isinstance(inner.value.func.value, ast.Name) and inner.value.func.value.id == tname and len(inner.value.args) == 1
                        conds = [app.test]
                        app = inner
                    if not ok:
                        continue
                    v = b.target.id
                    later = any(isinstance(x, ast.Name) and x.id == v for s_ in fn.body[where + 2:] for x in ast.walk(s_))
                    mentions_t = any(isinstance(x, ast.Name) and x.id == tname for e_ in [app.value.args[0], b.iter] + conds for x in ast.walk(e_))
                    if later or mentions_t:
                        continue
                    comp = ast.ListComp(elt=app.value.args[0], generators=[ast.comprehension(target=b.target, iter=b.iter, ifs=conds, is_async=0)])
                    fn.body[where:where + 2] = [ast.Assign(targets=[ast.Name(id=tname, ctx=ast.Store())], value=comp, lineno=a.lineno)]
                    line = a.lineno
                    desc = "append loop written as a list comprehension"
                else:
                    i, j = where
                    doc = len(fn.body) - len(fn.body[1:] if (fn.body and isinstance(fn.body[0], ast.Expr) and isinstance(fn.body[0].value, ast.Constant)) else fn.body)
                    body = fn.body[doc:]
                    pr = _extractable(fn, body, i - doc, j - doc)
                    if pr is None:
                        continue
                    hparams, results = pr
                    owner = None
                    for o in ast.walk(tree):
                        if hasattr(o, "body") and isinstance(o.body, list) and any(x is fn for x in o.body):
                            owner = o
                    if owner is None:
                        continue
                    hname = "_" + fn.name.strip("_") + "_part"
                    if hname in used or any(isinstance(x, ast.Attribute) and x.attr == hname for x in ast.walk(tree)):
                        continue
                    is_method = isinstance(owner, ast.ClassDef) and hparams and hparams[0] == "self"
                    if isinstance(owner, ast.ClassDef) and not is_method:
                        continue
                    block = fn.body[i:j]
                    line = block[0].lineno
                    ret = []
                    if results:
                        rv = ast.Name(id=results[0], ctx=ast.Load()) if len(results) == 1 else ast.Tuple(elts=[ast.Name(id=r, ctx=ast.Load()) for r in results], ctx=ast.Load())
                        ret = [ast.Return(value=rv)]
                    helper = ast.FunctionDef(name=hname, args=ast.arguments(posonlyargs=[], args=[ast.arg(arg=a) for a in hparams], vararg=None, kwonlyargs=[], kw_defaults=[],
                                                                            kwarg=None, defaults=[]), body=block + ret, decorator_list=[], returns=None, lineno=line, type_params=[])
                    if is_method:
                        call = ast.Call(func=ast.Attribute(value=ast.Name(id="self", ctx=ast.Load()), attr=hname, ctx=ast.Load()),
                                        args=[ast.Name(id=a, ctx=ast.Load()) for a in hparams[1:]], keywords=[])
                    else:
                        call = ast.Call(func=ast.Name(id=hname, ctx=ast.Load()), args=[ast.Name(id=a, ctx=ast.Load()) for a in hparams], keywords=[])
                    if results:
                        tg = ast.Name(id=results[0], ctx=ast.Store()) if len(results) == 1 else ast.Tuple(elts=[ast.Name(id=r, ctx=ast.Store()) for r in results], ctx=ast.Store())
                        st_new = ast.Assign(targets=[tg], value=call, lineno=line)
                    else:
                        st_new = ast.Expr(value=call)
                    fn.body[i:j] = [st_new]
                    owner.body.insert(owner.body.index(fn) + (1 if is_method else 0), helper)
                    desc = f"statements {i - doc}..{j - doc - 1} moved into the new helper {hname}({', '.join(hparams)}) -> {results}"
            else:
                n = own[where]
                line = getattr(n, "lineno", fn.lineno)
                if kind == "swap-if":
                    n.test = ast.UnaryOp(op=ast.Not(), operand=n.test)
                    n.body, n.orelse = n.orelse, n.body
                    desc = "if/else branches swapped under the negated test"
                elif kind == "nest-and":
                    vals = n.test.values
                    inner = ast.If(test=vals[-1] if len(vals) == 2 else ast.BoolOp(op=ast.And(), values=vals[1:]), body=n.body, orelse=[])
                    n.test = vals[0]
                    n.body = [inner]
                    desc = "`if a and b:` nested as two ifs"
                elif kind == "ifexp-stmt":
                    p, f, i = par[id(n)]
                    if i is None:
                        continue
                    tgt = n.targets[0]
                    new = ast.If(test=n.value.test, body=[ast.Assign(targets=[copy.deepcopy(tgt)], value=n.value.body, lineno=n.lineno)],
                                 orelse=[ast.Assign(targets=[copy.deepcopy(tgt)], value=n.value.orelse, lineno=n.lineno)])
                    getattr(p, f)[i] = new
                    desc = "conditional expression assignment written as an if statement"
                elif kind == "ret-temp":
                    p, f, i = par[id(n)]
                    if i is None:
                        continue
                    nm = "_r"
                    while nm in used:
                        nm += "r"
                    getattr(p, f)[i:i + 1] = [ast.Assign(targets=[ast.Name(id=nm, ctx=ast.Store())], value=n.value, lineno=n.lineno),
                                              ast.Return(value=ast.Name(id=nm, ctx=ast.Load()))]
                    desc = "returned expression bound to a temporary first"
                elif kind == "isinst-split":
                    p, f, i = par[id(n)]
                    new = ast.BoolOp(op=ast.Or(), values=[ast.Call(func=ast.Name(id="isinstance", ctx=ast.Load()), args=[copy.deepcopy(n.args[0]), e], keywords=[])
                                                          for e in n.args[1].elts])
                    if i is None:
                        setattr(p, f, new)
                    else:
                        getattr(p, f)[i] = new
                    desc = "isinstance with a tuple split into an or-chain"
                elif kind == "comp-loop":
                    p, f, i = par[id(n)]
                    if i is None:
                        continue
                    g = n.value.generators[0]
                    v = g.target.id
                    nv = v + "_c"
                    while nv in used:
                        nv += "c"
                    elt = copy.deepcopy(n.value.elt)
                    conds = copy.deepcopy(g.ifs)
                    for e in [elt] + conds:
                        for m in ast.walk(e):
                            if isinstance(m, ast.Name) and m.id == v:
                                m.id = nv
                    tname = n.targets[0].id
                    # the target must not occur in the comprehension itself (x = [f(x) ...] reads the old x)
                    if any(isinstance(m, ast.Name) and m.id == tname for m in ast.walk(n.value)):
                        continue
                    app = ast.Expr(value=ast.Call(func=ast.Attribute(value=ast.Name(id=tname, ctx=ast.Load()), attr="append", ctx=ast.Load()), args=[elt], keywords=[]))
                    body = [app]
                    for c in reversed(conds):
                        body = [ast.If(test=c, body=body, orelse=[])]
                    loop = ast.For(target=ast.Name(id=nv, ctx=ast.Store()), iter=g.iter, body=body, orelse=[], lineno=n.lineno)
                    getattr(p, f)[i:i + 1] = [ast.Assign(targets=[ast.Name(id=tname, ctx=ast.Store())], value=ast.List(elts=[], ctx=ast.Load()), lineno=n.lineno), loop]
                    desc = "list comprehension written as a loop with append"
                elif kind == "demorgan":
                    p, f, i = par[id(n)]
                    # only in a test position (if/while/ifexp test), where truthiness is all that is observed
                    if not (isinstance(p, (ast.If, ast.While, ast.IfExp)) and f == "test"):
                        continue
                    b = n.operand
                    new = ast.BoolOp(op=ast.Or() if isinstance(b.op, ast.And) else ast.And(), values=[ast.UnaryOp(op=ast.Not(), operand=x) for x in b.values])
                    setattr(p, f, new)
                    desc = "De Morgan on a negated test"
                elif kind == "flip-cmp":
                    n.left, n.comparators[0] = n.comparators[0], n.left
                    n.ops[0] = FLIP[type(n.ops[0])]()
                    desc = "comparison with a literal written the other way round"
                elif kind == "polarity":
                    inv = {ast.Is: ast.IsNot, ast.IsNot: ast.Is, ast.In: ast.NotIn, ast.NotIn: ast.In}
                    n.test.ops[0] = inv[type(n.test.ops[0])]()
                    n.body, n.orelse = n.orelse, n.body
                    desc = "test written in the opposite polarity, branches swapped"
                elif kind == "tail-else":
                    p, f, i = par[id(n)]
                    if i is None:
                        continue
                    block = getattr(p, f)
                    rest = block[i + 1:]
                    if not rest:
                        continue
                    # only where falling off the end of the block means falling off the function or the rest terminates
                    if not (p is fn and f == "body") and not _terminates(rest):
                        continue
                    n.orelse = rest
                    del block[i + 1:]
                    desc = "statements after a terminating if moved into its else"
                elif kind == "un-else":
                    p, f, i = par[id(n)]
                    if i is None:
                        continue
                    block = getattr(p, f)
                    rest = n.orelse
                    n.orelse = []
                    block[i + 1:i + 1] = rest
                    desc = "else of a terminating if dissolved into the following statements"
                elif kind == "test-temp":
                    p, f, i = par[id(n)]
                    if i is None:
                        continue
                    nm = "_t"
                    while nm in used:
                        nm += "t"
                    getattr(p, f)[i:i + 1] = [ast.Assign(targets=[ast.Name(id=nm, ctx=ast.Store())], value=n.test, lineno=n.lineno), n]
                    n.test = ast.Name(id=nm, ctx=ast.Load())
                    desc = "if-test bound to a temporary first"
                elif kind == "store-temp":
                    p, f, i = par[id(n)]
                    if i is None:
                        continue
                    nm = "_v"
                    while nm in used:
                        nm += "v"
                    getattr(p, f)[i:i + 1] = [ast.Assign(targets=[ast.Name(id=nm, ctx=ast.Store())], value=n.value, lineno=n.lineno), n]
                    n.value = ast.Name(id=nm, ctx=ast.Load())
                    desc = "stored value bound to a temporary first"
                elif kind == "swap-ifexp":
                    n.test, n.body, n.orelse = ast.UnaryOp(op=ast.Not(), operand=n.test), n.orelse, n.body
                    desc = "conditional expression written with the negated test"
                elif kind == "in-tuple-list":
                    c = n.comparators[0]
                    n.comparators[0] = (ast.List if isinstance(c, ast.Tuple) else ast.Tuple)(elts=c.elts, ctx=ast.Load())
                    desc = "membership container literal tuple <-> list"
                elif kind == "in-to-or":
                    p, f, i = par[id(n)]
                    new = ast.BoolOp(op=ast.Or(), values=[ast.Compare(left=copy.deepcopy(n.left), ops=[ast.Eq()], comparators=[e]) for e in n.comparators[0].elts])
                    if len(new.values) == 1:
                        new = new.values[0]
                    if i is None:
                        setattr(p, f, new)
                    else:
                        getattr(p, f)[i] = new
                    desc = "membership in a literal written as an or-chain of equalities"
                elif kind == "ret-ifexp":
                    p, f, i = par[id(n)]
                    if i is None:
                        continue
                    getattr(p, f)[i:i + 1] = [ast.If(test=n.value.test, body=[ast.Return(value=n.value.body)], orelse=[]), ast.Return(value=n.value.orelse)]
                    desc = "returned conditional expression written as if/return"
                elif kind == "while-true":
                    n.body = [ast.If(test=ast.UnaryOp(op=ast.Not(), operand=n.test), body=[ast.Break()], orelse=[])] + n.body
                    n.test = ast.Constant(value=True)
                    # `continue` in the old body re-evaluated the test: it still does (the test is the first statement)
                    desc = "while c: written as while True with a leading break test"
                elif kind == "dict-call":
                    p, f, i = par[id(n)]
                    new = ast.Call(func=ast.Name(id="dict", ctx=ast.Load()), args=[], keywords=[ast.keyword(arg=k.value, value=v) for k, v in zip(n.keys, n.values)])
                    if "dict" in used and any(isinstance(x, ast.Name) and x.id == "dict" and isinstance(x.ctx, ast.Store) for x in ast.walk(tree)):
                        continue
                    if i is None:
                        setattr(p, f, new)
                    else:
                        getattr(p, f)[i] = new
                    desc = "dict literal written as a dict(...) call"
                elif kind == "docstring":
                    fn.body.insert(0, ast.Expr(value=ast.Constant(value="Documented.")))
                    desc = "docstring added"
                    line = fn.lineno
                elif kind == "delegate":
                    pp = par.get(id(fn))
                    # find the owner of fn in the module tree
                    owner = None
                    for o in ast.walk(tree):
                        if hasattr(o, "body") and isinstance(o.body, list) and any(x is fn for x in o.body):
                            owner = o
                    if owner is None:
                        continue
                    hname = "_" + fn.name.strip("_") + "_impl"
                    if hname in used or any(isinstance(x, ast.Attribute) and x.attr == hname for x in ast.walk(tree)):
                        continue
                    helper = ast.FunctionDef(name=hname, args=copy.deepcopy(fn.args), body=fn.body, decorator_list=[], returns=None, lineno=fn.lineno, type_params=[])
                    helper.args.defaults = []
                    params = [a.arg for a in fn.args.args]
                    is_method = isinstance(owner, ast.ClassDef) and params and params[0] == "self"
                    if isinstance(owner, ast.ClassDef) and not is_method:
                        continue
                    if is_method:
                        call = ast.Call(func=ast.Attribute(value=ast.Name(id="self", ctx=ast.Load()), attr=hname, ctx=ast.Load()),
                                        args=[ast.Name(id=a, ctx=ast.Load()) for a in params[1:]], keywords=[])
                    else:
                        call = ast.Call(func=ast.Name(id=hname, ctx=ast.Load()), args=[ast.Name(id=a, ctx=ast.Load()) for a in params], keywords=[])
                    doc = []
                    if helper.body and isinstance(helper.body[0], ast.Expr) and isinstance(helper.body[0].value, ast.Constant) and isinstance(helper.body[0].value.value, str) and len(helper.body) > 1:
                        doc = [helper.body[0]]
                        helper.body = helper.body[1:]
                    fn.body = doc + [ast.Return(value=call)]
                    owner.body.insert(owner.body.index(fn) + 1, helper)
                    desc = f"body moved into the new helper {hname}, the original returns its call"
                    line = fn.lineno
                elif kind == "hoist-const":
                    p, f, i = par[id(n)]
                    nm = "_CONST"
                    k = 0
                    while f"{nm}{k}" in used:
                        k += 1
                    nm = f"{nm}{k}"
                    ref = ast.Name(id=nm, ctx=ast.Load())
                    if i is None:
                        setattr(p, f, ref)
                    else:
                        getattr(p, f)[i] = ref
                    # insert after the imports / module docstring
                    pos = 0
                    for j, st in enumerate(tree.body):
                        if isinstance(st, (ast.Import, ast.ImportFrom)) or (j == 0 and isinstance(st, ast.Expr) and isinstance(st.value, ast.Constant)):
                            pos = j + 1
                        else:
                            break
                    tree.body.insert(pos, ast.Assign(targets=[ast.Name(id=nm, ctx=ast.Store())], value=n, lineno=1))
                    desc = f"literal {ast.unparse(n)[:30]} hoisted to module constant {nm}"
            if desc is None:
                continue
            ast.fix_missing_locations(tree)
            out = ast.unparse(tree)
            ast.parse(out)
        except Exception:
            continue
        produced += 1
        yield (f"{kind}: {desc} at line {line}", out)


def _eval_one(args):
    prop, rel, qual, desc, new_src, base_root, baseline = args
    from importlib import import_module
    from .report import UNRECOGNISED, VIOLATED, evaluate
    rules = import_module(f"snt_static.rules.{prop}").RULES
    tmp = tempfile.mkdtemp(prefix="snt_eqv_")
    try:
        for sub in ("src", "docs"):
            s = Path(base_root) / sub
            if s.is_dir():
                shutil.copytree(s, Path(tmp) / sub, copy_function=os.link)
        target = Path(tmp) / rel
        target.unlink()
        target.write_text(new_src)
        ctx = evaluate(prop, rules, "quick", root=tmp)
        newv = sorted({(i.key, getattr(i, "site", None)) for i in ctx.instances if i.verdict == VIOLATED and i.key not in baseline}, key=str)
        unrec = [i.key for i in ctx.instances if i.verdict == UNRECOGNISED]
        status = "false-violation" if newv else ("unrecognised" if unrec else "silent")
        return {"file": rel, "function": qual, "rewrite": desc, "status": status, "by": [str(x) for x in (newv or unrec)[:2]]}
    except Exception as e:      # machinery problem: reported, never a verdict
        return {"file": rel, "function": qual, "rewrite": desc, "status": "error", "by": [f"{type(e).__name__}: {e}"[:120]]}
    finally:
        shutil.rmtree(tmp, ignore_errors=True)


def robustness(prop, functions, base_root, baseline_keys, per_function=None, jobs=None, total=None):
    """functions: iterable of 'relpath::Qual.name'. -> summary dict."""
    from multiprocessing import Pool
    work = []
    for f in sorted(functions):
        if "::" not in f:
            continue
        rel, qual = f.split("::", 1)
        p = Path(base_root) / rel
        if not p.is_file():
            continue
        try:
            src = p.read_text()
            for desc, new_src in equivalents_of_function(src, qual, per_function):
                work.append((prop, rel, qual, desc, new_src, str(base_root), set(baseline_keys)))
        except SyntaxError:
            continue
    if total is not None and len(work) > total:
        step = len(work) / total
        work = [work[int(i * step)] for i in range(total)]
    if not work:
        return {"rewrites": 0}
    with Pool(jobs or min(16, os.cpu_count() or 4)) as pool:
        res = pool.map(_eval_one, work, chunksize=2)
    out = {"rewrites": len(res)}
    for s in ("silent", "unrecognised", "false-violation", "error"):
        out[s] = sum(1 for r in res if r["status"] == s)
    out["false_violations"] = [r for r in res if r["status"] == "false-violation"][:50]
    out["unrecognised_list"] = [f"{r['file']}::{r['function']}: {r['rewrite']} -> {r['by'][:1]}" for r in res if r["status"] == "unrecognised"][:300]
    out["errors"] = [r for r in res if r["status"] == "error"][:5]
    out["note"] = ("behaviour-preserving rewrites of the analysed functions, evaluated statically; the correct outcomes are silent or "
                   "unrecognised - a false violation is a defect of the rule set")
    return out
