"""Robustness of a rule set against behaviour-preserving rewrites (thorough tier and tools/equivscore.py).

The counterpart of mutate.py: first-order *semantics-preserving* rewrites of the functions a property's rules analyse
are generated from the AST, written to scratch copies of the tree and the rule set is evaluated on each (statically -
nothing is executed).  Since the behaviour is unchanged, the only correct outcomes are *silent* (every instance still
holds) and *unrecognised* (the rule set says it cannot read the new form, exit 2).  A *false-violation* is a defect
of the rule set: the site is reported so that it can be corrected.  The instrument never changes a verdict.

Every rewrite below preserves the behaviour of any Python program (no assumption about types) unless stated:

  swap-if        if c: A else: B            ->  if not c: B else: A
  nest-and       if a and b: A   (no else)  ->  if a: if b: A
  ifexp-stmt     x = A if c else B          ->  if c: x = A else: x = B
  ret-temp       return E                   ->  _r = E; return _r
  rename         a local (assigned, not a parameter, not global/nonlocal) renamed consistently
  isinst-split   isinstance(x, (A, B))      ->  isinstance(x, A) or isinstance(x, B)
  hoist-const    an immutable literal (str/number/tuple of those) becomes a module-level constant
  comp-loop      x = [E for v in IT if C]   ->  x = []; for v_ in IT: if C: x.append(E)   (fresh loop variable)
  demorgan       not (a and b) in a test    ->  not a or not b
  flip-cmp       A < B -> B > A for comparisons against a literal constant (the literal has no reflected method of
                 its own that could differ: int/float/str/None constants)
  polarity       if x is None: A else: B    ->  if x is not None: B else: A      (is / is not / in / not in only)
  tail-else      if c: ...return/raise; REST -> if c: ...return/raise  else: REST
  un-else        if c: ...return/raise else: B -> if c: ...return/raise; B
  test-temp      if E:                      ->  _t = E; if _t:
  store-temp     obj.attr = E               ->  _t = E; obj.attr = _t            (the right-hand side is evaluated first anyway)
  delegate       the whole body moved into a new method/function with the same parameters, the original returns its call
  docstring      a docstring added where there is none
  swap-ifexp     A if c else B              ->  B if not c else A
  in-tuple-list  x in (a, b)                <-> x in [a, b]
  in-to-or       x in ('a', 'b')            ->  x == 'a' or x == 'b'             (string/number literals only)
  ret-ifexp      return A if c else B       ->  if c: return A / return B
"""
import ast
import copy
import os
import shutil
import tempfile
from pathlib import Path

from .mutate import _functions

FLIP = {ast.Lt: ast.Gt, ast.Gt: ast.Lt, ast.LtE: ast.GtE, ast.GtE: ast.LtE, ast.Eq: ast.Eq, ast.NotEq: ast.NotEq}


def _parents(fn):
    par = {}
    for p in ast.walk(fn):
        for f, v in ast.iter_fields(p):
            if isinstance(v, list):
                for i, x in enumerate(v):
                    if isinstance(x, ast.AST):
                        par[id(x)] = (p, f, i)
            elif isinstance(v, ast.AST):
                par[id(v)] = (p, f, None)
    return par


def _own_nodes(fn):
    """Nodes of fn that are not inside a nested def/class (comprehensions and lambdas are included)."""
    out = []

    def rec(n, top):
        if not top and isinstance(n, (ast.FunctionDef, ast.AsyncFunctionDef, ast.ClassDef)):
            return
        out.append(n)
        for c in ast.iter_child_nodes(n):
            rec(c, False)
    rec(fn, True)
    return out


def _locals(fn):
    """Names assigned in fn (plain stores, loop targets, with targets) that are safe to rename."""
    params = {a.arg for a in fn.args.posonlyargs + fn.args.args + fn.args.kwonlyargs}
    if fn.args.vararg:
        params.add(fn.args.vararg.arg)
    if fn.args.kwarg:
        params.add(fn.args.kwarg.arg)
    banned = set(params)
    nested_args = set()
    for n in ast.walk(fn):
        if isinstance(n, (ast.Global, ast.Nonlocal)):
            banned |= set(n.names)
        if n is not fn and isinstance(n, (ast.FunctionDef, ast.AsyncFunctionDef, ast.Lambda)):
            for a in n.args.posonlyargs + n.args.args + n.args.kwonlyargs:
                nested_args.add(a.arg)
            # a nested def assigning the same name has its own binding: leave such names alone
            if not isinstance(n, ast.Lambda):
                for m in ast.walk(n):
                    if isinstance(m, ast.Name) and isinstance(m.ctx, ast.Store):
                        banned.add(m.id)
                banned.add(n.name)
        if isinstance(n, ast.ClassDef):
            banned.add(n.name)
        if isinstance(n, ast.Call) and isinstance(n.func, ast.Name) and n.func.id in ("locals", "vars", "eval", "exec"):
            return []
        if isinstance(n, ast.ExceptHandler) and n.name:
            banned.add(n.name)
        if isinstance(n, (ast.Import, ast.ImportFrom)):
            for a in n.names:
                banned.add((a.asname or a.name).split(".")[0])
    banned |= nested_args
    comp_vars = set()
    for n in ast.walk(fn):
        if isinstance(n, ast.comprehension):
            for m in ast.walk(n.target):
                if isinstance(m, ast.Name):
                    comp_vars.add(m.id)
    names = []
    for n in _own_nodes(fn):
        if isinstance(n, ast.Name) and isinstance(n.ctx, ast.Store) and n.id not in banned and n.id not in comp_vars and n.id not in names \
                and not n.id.startswith("__"):
            names.append(n.id)
    return names


def _all_names(tree):
    return {n.id for n in ast.walk(tree) if isinstance(n, ast.Name)} | {a.arg for n in ast.walk(tree) if isinstance(n, ast.arguments)
                                                                           for a in n.posonlyargs + n.args + n.kwonlyargs}


def _immutable_literal(n):
    if isinstance(n, ast.Constant):
        return isinstance(n.value, (str, int, float)) and not isinstance(n.value, bool)
    if isinstance(n, ast.Tuple) and isinstance(n.ctx, ast.Load):
        return bool(n.elts) and all(_immutable_literal(e) for e in n.elts)
    return False


def _terminates(stmts):
    if not stmts:
        return False
    last = stmts[-1]
    if isinstance(last, (ast.Return, ast.Raise)):
        return True
    if isinstance(last, ast.If) and last.orelse:
        return _terminates(last.body) and _terminates(last.orelse)
    return False


def equivalents_of_function(src, qual, limit=None):
    """Yield (description, rewritten module source) for behaviour-preserving rewrites inside function `qual`."""
    base = ast.parse(src)
    if qual not in _functions(base):
        return
    produced = 0

    def fresh():
        t = ast.parse(src)
        return t, _functions(t)[qual]

    # enumerate sites on one tree, address them by index so that each rewrite starts from a fresh tree
    _, fn0 = fresh()
    own0 = _own_nodes(fn0)
    used = _all_names(base)
    kinds = []
    for idx, n in enumerate(own0):
        if isinstance(n, ast.If) and n.orelse:
            kinds.append(("swap-if", idx))
        if isinstance(n, ast.If) and not n.orelse and isinstance(n.test, ast.BoolOp) and isinstance(n.test.op, ast.And):
            kinds.append(("nest-and", idx))
        if isinstance(n, ast.Assign) and len(n.targets) == 1 and isinstance(n.value, ast.IfExp) and isinstance(n.targets[0], (ast.Name, ast.Attribute)):
            kinds.append(("ifexp-stmt", idx))
        if isinstance(n, ast.Return) and n.value is not None and not isinstance(n.value, (ast.Name, ast.Constant)):
            kinds.append(("ret-temp", idx))
        if isinstance(n, ast.Call) and isinstance(n.func, ast.Name) and n.func.id == "isinstance" and len(n.args) == 2 \
                and isinstance(n.args[1], ast.Tuple) and len(n.args[1].elts) >= 2 and isinstance(n.args[0], (ast.Name, ast.Attribute)):
            kinds.append(("isinst-split", idx))
        if isinstance(n, ast.Assign) and len(n.targets) == 1 and isinstance(n.targets[0], ast.Name) and isinstance(n.value, ast.ListComp) \
                and len(n.value.generators) == 1 and not n.value.generators[0].is_async and isinstance(n.value.generators[0].target, ast.Name):
            kinds.append(("comp-loop", idx))
        if isinstance(n, ast.UnaryOp) and isinstance(n.op, ast.Not) and isinstance(n.operand, ast.BoolOp):
            kinds.append(("demorgan", idx))
        if isinstance(n, ast.Compare) and len(n.ops) == 1 and type(n.ops[0]) in FLIP and isinstance(n.comparators[0], ast.Constant) \
                and not isinstance(n.left, ast.Constant) and isinstance(n.comparators[0].value, (int, float, str)):
            kinds.append(("flip-cmp", idx))
        if isinstance(n, ast.If) and n.orelse and isinstance(n.test, ast.Compare) and len(n.test.ops) == 1 and isinstance(n.test.ops[0], (ast.Is, ast.IsNot, ast.In, ast.NotIn)):
            kinds.append(("polarity", idx))
        if isinstance(n, ast.If) and not n.orelse and _terminates(n.body):
            kinds.append(("tail-else", idx))
        if isinstance(n, ast.If) and n.orelse and _terminates(n.body) and not (len(n.orelse) == 1 and isinstance(n.orelse[0], ast.If)):
            kinds.append(("un-else", idx))
        if isinstance(n, ast.If) and not isinstance(n.test, (ast.Name, ast.Constant)):
            kinds.append(("test-temp", idx))
        if isinstance(n, ast.Assign) and len(n.targets) == 1 and isinstance(n.targets[0], ast.Attribute) and not isinstance(n.value, (ast.Name, ast.Constant)):
            kinds.append(("store-temp", idx))
        if isinstance(n, ast.IfExp):
            kinds.append(("swap-ifexp", idx))
        if isinstance(n, ast.Compare) and len(n.ops) == 1 and isinstance(n.ops[0], (ast.In, ast.NotIn)) and isinstance(n.comparators[0], (ast.Tuple, ast.List)) \
                and n.comparators[0].elts:
            kinds.append(("in-tuple-list", idx))
            if isinstance(n.ops[0], ast.In) and all(isinstance(e, ast.Constant) and isinstance(e.value, (str, int)) for e in n.comparators[0].elts) \
                    and isinstance(n.left, (ast.Name, ast.Attribute)):
                kinds.append(("in-to-or", idx))
        if isinstance(n, ast.Return) and isinstance(n.value, ast.IfExp):
            kinds.append(("ret-ifexp", idx))
    if not any(isinstance(x, (ast.Yield, ast.YieldFrom, ast.Await)) for x in ast.walk(fn0)) and not fn0.decorator_list \
            and not any(isinstance(x, ast.Name) and x.id in ("super", "__class__") for x in ast.walk(fn0)) \
            and not fn0.args.vararg and not fn0.args.kwarg and not fn0.args.kwonlyargs and not fn0.args.posonlyargs:
        kinds.append(("delegate", 0))
    if not (fn0.body and isinstance(fn0.body[0], ast.Expr) and isinstance(fn0.body[0].value, ast.Constant) and isinstance(fn0.body[0].value.value, str)):
        kinds.append(("docstring", 0))
    hoistable = [idx for idx, n in enumerate(own0) if _immutable_literal(n) and not (isinstance(n, ast.Constant) and (n.value in (0, 1, "", -1) or (isinstance(n.value, str) and len(n.value) < 2)))]
    par0 = _parents(fn0)
    # literals inside f-strings, docstrings or tuple members already counted are skipped
    keep = []
    for idx in hoistable:
        n = own0[idx]
        p = par0.get(id(n))
        if p and isinstance(p[0], (ast.JoinedStr, ast.FormattedValue, ast.Tuple)):
            continue
        if p and isinstance(p[0], ast.Expr):
            continue     # docstring / bare literal
        if p and isinstance(p[0], ast.Subscript) and p[1] == "slice":
            continue
        keep.append(idx)
    kinds += [("hoist-const", idx) for idx in keep[:4]]
    kinds += [("rename", nm) for nm in _locals(fn0)[:4]]

    for kind, where in kinds:
        if limit is not None and produced >= limit:
            return
        tree, fn = fresh()
        own = _own_nodes(fn)
        par = _parents(fn)
        desc = None
        try:
            if kind == "rename":
                new = where + "_x"
                while new in used:
                    new += "x"
                for n in ast.walk(fn):
                    if isinstance(n, ast.Name) and n.id == where:
                        n.id = new
                desc = f"local {where} renamed to {new}"
                line = fn.lineno
            else:
                n = own[where]
                line = getattr(n, "lineno", fn.lineno)
                if kind == "swap-if":
                    n.test = ast.UnaryOp(op=ast.Not(), operand=n.test)
                    n.body, n.orelse = n.orelse, n.body
                    desc = "if/else branches swapped under the negated test"
                elif kind == "nest-and":
                    vals = n.test.values
                    inner = ast.If(test=vals[-1] if len(vals) == 2 else ast.BoolOp(op=ast.And(), values=vals[1:]), body=n.body, orelse=[])
                    n.test = vals[0]
                    n.body = [inner]
                    desc = "`if a and b:` nested as two ifs"
                elif kind == "ifexp-stmt":
                    p, f, i = par[id(n)]
                    if i is None:
                        continue
                    tgt = n.targets[0]
                    new = ast.If(test=n.value.test, body=[ast.Assign(targets=[copy.deepcopy(tgt)], value=n.value.body, lineno=n.lineno)],
                                 orelse=[ast.Assign(targets=[copy.deepcopy(tgt)], value=n.value.orelse, lineno=n.lineno)])
                    getattr(p, f)[i] = new
                    desc = "conditional expression assignment written as an if statement"
                elif kind == "ret-temp":
                    p, f, i = par[id(n)]
                    if i is None:
                        continue
                    nm = "_r"
                    while nm in used:
                        nm += "r"
                    getattr(p, f)[i:i + 1] = [ast.Assign(targets=[ast.Name(id=nm, ctx=ast.Store())], value=n.value, lineno=n.lineno),
                                              ast.Return(value=ast.Name(id=nm, ctx=ast.Load()))]
                    desc = "returned expression bound to a temporary first"
                elif kind == "isinst-split":
                    p, f, i = par[id(n)]
                    new = ast.BoolOp(op=ast.Or(), values=[ast.Call(func=ast.Name(id="isinstance", ctx=ast.Load()), args=[copy.deepcopy(n.args[0]), e], keywords=[])
                                                          for e in n.args[1].elts])
                    if i is None:
                        setattr(p, f, new)
                    else:
                        getattr(p, f)[i] = new
                    desc = "isinstance with a tuple split into an or-chain"
                elif kind == "comp-loop":
                    p, f, i = par[id(n)]
                    if i is None:
                        continue
                    g = n.value.generators[0]
                    v = g.target.id
                    nv = v + "_c"
                    while nv in used:
                        nv += "c"
                    elt = copy.deepcopy(n.value.elt)
                    conds = copy.deepcopy(g.ifs)
                    for e in [elt] + conds:
                        for m in ast.walk(e):
                            if isinstance(m, ast.Name) and m.id == v:
                                m.id = nv
                    tname = n.targets[0].id
                    # the target must not occur in the comprehension itself (x = [f(x) ...] reads the old x)
                    if any(isinstance(m, ast.Name) and m.id == tname for m in ast.walk(n.value)):
                        continue
                    app = ast.Expr(value=ast.Call(func=ast.Attribute(value=ast.Name(id=tname, ctx=ast.Load()), attr="append", ctx=ast.Load()), args=[elt], keywords=[]))
                    body = [app]
                    for c in reversed(conds):
                        body = [ast.If(test=c, body=body, orelse=[])]
                    loop = ast.For(target=ast.Name(id=nv, ctx=ast.Store()), iter=g.iter, body=body, orelse=[], lineno=n.lineno)
                    getattr(p, f)[i:i + 1] = [ast.Assign(targets=[ast.Name(id=tname, ctx=ast.Store())], value=ast.List(elts=[], ctx=ast.Load()), lineno=n.lineno), loop]
                    desc = "list comprehension written as a loop with append"
                elif kind == "demorgan":
                    p, f, i = par[id(n)]
                    # only in a test position (if/while/ifexp test), where truthiness is all that is observed
                    if not (isinstance(p, (ast.If, ast.While, ast.IfExp)) and f == "test"):
                        continue
                    b = n.operand
                    new = ast.BoolOp(op=ast.Or() if isinstance(b.op, ast.And) else ast.And(), values=[ast.UnaryOp(op=ast.Not(), operand=x) for x in b.values])
                    setattr(p, f, new)
                    desc = "De Morgan on a negated test"
                elif kind == "flip-cmp":
                    n.left, n.comparators[0] = n.comparators[0], n.left
                    n.ops[0] = FLIP[type(n.ops[0])]()
                    desc = "comparison with a literal written the other way round"
                elif kind == "polarity":
                    inv = {ast.Is: ast.IsNot, ast.IsNot: ast.Is, ast.In: ast.NotIn, ast.NotIn: ast.In}
                    n.test.ops[0] = inv[type(n.test.ops[0])]()
                    n.body, n.orelse = n.orelse, n.body
                    desc = "test written in the opposite polarity, branches swapped"
                elif kind == "tail-else":
                    p, f, i = par[id(n)]
                    if i is None:
                        continue
                    block = getattr(p, f)
                    rest = block[i + 1:]
                    if not rest:
                        continue
                    # only where falling off the end of the block means falling off the function or the rest terminates
                    if not (p is fn and f == "body") and not _terminates(rest):
                        continue
                    n.orelse = rest
                    del block[i + 1:]
                    desc = "statements after a terminating if moved into its else"
                elif kind == "un-else":
                    p, f, i = par[id(n)]
                    if i is None:
                        continue
                    block = getattr(p, f)
                    rest = n.orelse
                    n.orelse = []
                    block[i + 1:i + 1] = rest
                    desc = "else of a terminating if dissolved into the following statements"
                elif kind == "test-temp":
                    p, f, i = par[id(n)]
                    if i is None:
                        continue
                    nm = "_t"
                    while nm in used:
                        nm += "t"
                    getattr(p, f)[i:i + 1] = [ast.Assign(targets=[ast.Name(id=nm, ctx=ast.Store())], value=n.test, lineno=n.lineno), n]
                    n.test = ast.Name(id=nm, ctx=ast.Load())
                    desc = "if-test bound to a temporary first"
                elif kind == "store-temp":
                    p, f, i = par[id(n)]
                    if i is None:
                        continue
                    nm = "_v"
                    while nm in used:
                        nm += "v"
                    getattr(p, f)[i:i + 1] = [ast.Assign(targets=[ast.Name(id=nm, ctx=ast.Store())], value=n.value, lineno=n.lineno), n]
                    n.value = ast.Name(id=nm, ctx=ast.Load())
                    desc = "stored value bound to a temporary first"
                elif kind == "swap-ifexp":
                    n.test, n.body, n.orelse = ast.UnaryOp(op=ast.Not(), operand=n.test), n.orelse, n.body
                    desc = "conditional expression written with the negated test"
                elif kind == "in-tuple-list":
                    c = n.comparators[0]
                    n.comparators[0] = (ast.List if isinstance(c, ast.Tuple) else ast.Tuple)(elts=c.elts, ctx=ast.Load())
                    desc = "membership container literal tuple <-> list"
                elif kind == "in-to-or":
                    p, f, i = par[id(n)]
                    new = ast.BoolOp(op=ast.Or(), values=[ast.Compare(left=copy.deepcopy(n.left), ops=[ast.Eq()], comparators=[e]) for e in n.comparators[0].elts])
                    if len(new.values) == 1:
                        new = new.values[0]
                    if i is None:
                        setattr(p, f, new)
                    else:
                        getattr(p, f)[i] = new
                    desc = "membership in a literal written as an or-chain of equalities"
                elif kind == "ret-ifexp":
                    p, f, i = par[id(n)]
                    if i is None:
                        continue
                    getattr(p, f)[i:i + 1] = [ast.If(test=n.value.test, body=[ast.Return(value=n.value.body)], orelse=[]), ast.Return(value=n.value.orelse)]
                    desc = "returned conditional expression written as if/return"
                elif kind == "docstring":
                    fn.body.insert(0, ast.Expr(value=ast.Constant(value="Documented.")))
                    desc = "docstring added"
                    line = fn.lineno
                elif kind == "delegate":
                    pp = par.get(id(fn))
                    # find the owner of fn in the module tree
                    owner = None
                    for o in ast.walk(tree):
                        if hasattr(o, "body") and isinstance(o.body, list) and any(x is fn for x in o.body):
                            owner = o
                    if owner is None:
                        continue
                    hname = "_" + fn.name.strip("_") + "_impl"
                    if hname in used or any(isinstance(x, ast.Attribute) and x.attr == hname for x in ast.walk(tree)):
                        continue
                    helper = ast.FunctionDef(name=hname, args=copy.deepcopy(fn.args), body=fn.body, decorator_list=[], returns=None, lineno=fn.lineno, type_params=[])
                    helper.args.defaults = []
                    params = [a.arg for a in fn.args.args]
                    is_method = isinstance(owner, ast.ClassDef) and params and params[0] == "self"
                    if isinstance(owner, ast.ClassDef) and not is_method:
                        continue
                    if is_method:
                        call = ast.Call(func=ast.Attribute(value=ast.Name(id="self", ctx=ast.Load()), attr=hname, ctx=ast.Load()),
                                        args=[ast.Name(id=a, ctx=ast.Load()) for a in params[1:]], keywords=[])
                    else:
                        call = ast.Call(func=ast.Name(id=hname, ctx=ast.Load()), args=[ast.Name(id=a, ctx=ast.Load()) for a in params], keywords=[])
                    doc = []
                    if helper.body and isinstance(helper.body[0], ast.Expr) and isinstance(helper.body[0].value, ast.Constant) and isinstance(helper.body[0].value.value, str) and len(helper.body) > 1:
                        doc = [helper.body[0]]
                        helper.body = helper.body[1:]
                    fn.body = doc + [ast.Return(value=call)]
                    owner.body.insert(owner.body.index(fn) + 1, helper)
                    desc = f"body moved into the new helper {hname}, the original returns its call"
                    line = fn.lineno
                elif kind == "hoist-const":
                    p, f, i = par[id(n)]
                    nm = "_CONST"
                    k = 0
                    while f"{nm}{k}" in used:
                        k += 1
                    nm = f"{nm}{k}"
                    ref = ast.Name(id=nm, ctx=ast.Load())
                    if i is None:
                        setattr(p, f, ref)
                    else:
                        getattr(p, f)[i] = ref
                    # insert after the imports / module docstring
                    pos = 0
                    for j, st in enumerate(tree.body):
                        if isinstance(st, (ast.Import, ast.ImportFrom)) or (j == 0 and isinstance(st, ast.Expr) and isinstance(st.value, ast.Constant)):
                            pos = j + 1
                        else:
                            break
                    tree.body.insert(pos, ast.Assign(targets=[ast.Name(id=nm, ctx=ast.Store())], value=n, lineno=1))
                    desc = f"literal {ast.unparse(n)[:30]} hoisted to module constant {nm}"
            if desc is None:
                continue
            ast.fix_missing_locations(tree)
            out = ast.unparse(tree)
            ast.parse(out)
        except Exception:
            continue
        produced += 1
        yield (f"{kind}: {desc} at line {line}", out)


def _eval_one(args):
    prop, rel, qual, desc, new_src, base_root, baseline = args
    from importlib import import_module
    from .report import UNRECOGNISED, VIOLATED, evaluate
    rules = import_module(f"snt_static.rules.{prop}").RULES
    tmp = tempfile.mkdtemp(prefix="snt_eqv_")
    try:
        for sub in ("src", "docs"):
            s = Path(base_root) / sub
            if s.is_dir():
                shutil.copytree(s, Path(tmp) / sub, copy_function=os.link)
        target = Path(tmp) / rel
        target.unlink()
        target.write_text(new_src)
        ctx = evaluate(prop, rules, "quick", root=tmp)
        newv = sorted({(i.key, getattr(i, "site", None)) for i in ctx.instances if i.verdict == VIOLATED and i.key not in baseline}, key=str)
        unrec = [i.key for i in ctx.instances if i.verdict == UNRECOGNISED]
        status = "false-violation" if newv else ("unrecognised" if unrec else "silent")
        return {"file": rel, "function": qual, "rewrite": desc, "status": status, "by": [str(x) for x in (newv or unrec)[:2]]}
    except Exception as e:      # machinery problem: reported, never a verdict
        return {"file": rel, "function": qual, "rewrite": desc, "status": "error", "by": [f"{type(e).__name__}: {e}"[:120]]}
    finally:
        shutil.rmtree(tmp, ignore_errors=True)


def robustness(prop, functions, base_root, baseline_keys, per_function=None, jobs=None, total=None):
    """functions: iterable of 'relpath::Qual.name'. -> summary dict."""
    from multiprocessing import Pool
    work = []
    for f in sorted(functions):
        if "::" not in f:
            continue
        rel, qual = f.split("::", 1)
        p = Path(base_root) / rel
        if not p.is_file():
            continue
        try:
            src = p.read_text()
            for desc, new_src in equivalents_of_function(src, qual, per_function):
                work.append((prop, rel, qual, desc, new_src, str(base_root), set(baseline_keys)))
        except SyntaxError:
            continue
    if total is not None and len(work) > total:
        step = len(work) / total
        work = [work[int(i * step)] for i in range(total)]
    if not work:
        return {"rewrites": 0}
    with Pool(jobs or min(16, os.cpu_count() or 4)) as pool:
        res = pool.map(_eval_one, work, chunksize=2)
    out = {"rewrites": len(res)}
    for s in ("silent", "unrecognised", "false-violation", "error"):
        out[s] = sum(1 for r in res if r["status"] == s)
    out["false_violations"] = [r for r in res if r["status"] == "false-violation"][:50]
    out["unrecognised_list"] = [f"{r['file']}::{r['function']}: {r['rewrite']} -> {r['by'][:1]}" for r in res if r["status"] == "unrecognised"][:300]
    out["errors"] = [r for r in res if r["status"] == "error"][:5]
    out["note"] = ("behaviour-preserving rewrites of the analysed functions, evaluated statically; the correct outcomes are silent or "
                   "unrecognised - a false violation is a defect of the rule set")
    return out
