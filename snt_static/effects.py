"""Interprocedural aliasing and mutation summaries over a set of modules.

Abstract objects
    ('P', i, path)   object reachable from parameter i through the field path (('*') = any element)
    ('F', site)      object created inside the analysed function at `site`
    ('G', name)      module-level object
    ('N',)           immutable value of no interest (number, string, None, bool)
A *value* is a set of (object, type) pairs; type is a class name of the analysed scope,
one of the pseudo types 'ndarray?' (may be a numpy array), 'dict', 'list', 'num', 'class:<X>' or None.

Per function the analysis yields
    mut   {(i, path, via, node)}  writes to objects reachable from parameter i
    ret   value returned (objects; fresh objects carry their fields in `ffields`)
Summaries (mut paths, returned aliases, fields of the returned fresh object, stores into
parameters) are iterated to a fixpoint over the call graph.  The analysis is flow-sensitive for
local names (strong updates, join at merges, loops to a small fixpoint), field-sensitive for
fresh objects, and narrows types on isinstance tests.
"""
import ast
import itertools

from .model import AnalysisError, dotted_name, methods, norm

MUTATORS = {"append", "extend", "insert", "pop", "remove", "clear", "update", "setdefault", "popitem", "sort",
            "reverse", "appendleft", "popleft", "add", "discard", "fill", "resize", "itemset", "put", "partition",
            "setflags", "byteswap"}
PURE_MODULES = {"np", "numpy", "math", "re", "json", "copy", "os", "sys", "itertools", "fractions", "decimal",
                "warnings", "string", "textwrap"}
FRESH_BUILTINS = {"dict", "list", "tuple", "set", "frozenset", "float", "int", "str", "bool", "Decimal", "len",
                  "isinstance", "issubclass", "range", "enumerate", "zip", "max", "min", "abs", "repr", "hasattr",
                  "Exception", "ValueError", "TypeError", "KeyError", "NotImplementedError", "type", "sorted",
                  "reversed", "sum", "any", "all", "map", "filter", "round", "print", "id", "hash", "callable",
                  "format", "iter", "next", "divmod", "pow", "isclose", "object", "super", "open", "vars", "slice",
                  "bytes", "complex", "ord", "chr", "AttributeError", "RuntimeError", "IndexError", "AssertionError"}
BINOP = {ast.Add: "add", ast.Sub: "sub", ast.Mult: "mul", ast.Div: "truediv", ast.Pow: "pow", ast.FloorDiv: "floordiv",
         ast.Mod: "mod", ast.MatMult: "matmul", ast.BitOr: "or", ast.BitAnd: "and"}
IMMUTABLE_TYPES = {"num", "str", "None", "bool", "tuple"}
MAXPATH = 4
N = (("N",), "num")


def P(i, path=()):
    return ("P", i, tuple(path))


class Summary:
    __slots__ = ("mut", "ret_alias", "ret_fields", "ret_types", "stores")

    def __init__(self):
        self.mut = set()          # {(i, path, cond, origin)}: cond = frozenset of root-parameter types under which the write happens (None = always); origin = function containing the store
        self.ret_alias = set()    # {(i, path, cond)}   returned object is param-reachable
        self.ret_fields = set()   # {(fieldpath, i, path, cond, immutable_tag)}  returned fresh object's field aliases a param path
        self.ret_types = set()    # {type}
        self.stores = set()       # {(i, fieldpath, j, path, cond, immutable_tag)}  at exit, param i's field aliases param j's path

    def size(self):
        return len(self.mut) + len(self.ret_alias) + len(self.ret_fields) + len(self.ret_types) + len(self.stores)


class Program:
    """Classes/functions of the analysed modules plus type knowledge."""

    def __init__(self, repo, relpaths, hints=None, field_hints=None, callbacks=None, class_lists=None):
        self.repo = repo
        self.mods = [repo.module(r) for r in relpaths]
        self.classes = {}      # name -> (module, ClassDef)
        self.funcs = {}        # qualname -> (module, FunctionDef, clsname|None)
        for m in self.mods:
            for cn, c in m.classes.items():
                self.classes.setdefault(cn, (m, c))
                for mn, fn in methods(c).items():
                    self.funcs.setdefault(f"{cn}.{mn}", (m, fn, cn))
            for fname, fn in m.functions.items():
                self.funcs.setdefault(fname, (m, fn, None))
        self.hints = dict(hints or {})               # (qualname, param) -> type
        self.field_types = {c: {} for c in self.classes}   # class -> field -> set(types)
        self.field_hints = dict(field_hints or {})    # authoritative: (class, field) -> type
        self.callbacks = callbacks or {}             # qualname -> [qualnames additionally called]
        self.class_lists = class_lists or {}         # global name -> [class names]
        self.summ = {q: Summary() for q in self.funcs}
        self.param_types = {q: {} for q in self.funcs}     # q -> i -> set(types) learned from call sites
        self.raw = {}                                # q -> FunctionResult of last pass
        self.unresolved = {}                         # q -> list of unresolved call descriptions
        self.call_edges = {}                         # q -> set(callee q)
        self._collect_field_annotations()

    # ---- class structure
    def bases(self, c):
        m, cd = self.classes[c]
        out = []
        for b in cd.bases:
            nm = b.id if isinstance(b, ast.Name) else None
            if nm in self.classes:
                out.append(nm)
        return out

    def mro(self, c):
        out = [c]
        for b in self.bases(c):
            out += [x for x in self.mro(b) if x not in out]
        return out

    def subclasses(self, c):
        return [k for k in self.classes if c in self.mro(k)]

    def resolve_method(self, cls, name):
        if cls not in self.classes:
            return None
        for k in self.mro(cls):
            if f"{k}.{name}" in self.funcs:
                return f"{k}.{name}"
        return None

    def dispatch(self, cls, name):
        """All implementations a call x.name() may reach when x is of static type cls."""
        out = []
        r = self.resolve_method(cls, name)
        if r:
            out.append(r)
        for s in self.subclasses(cls):
            if s != cls and f"{s}.{name}" in self.funcs:
                out.append(f"{s}.{name}")
        return out

    def by_name(self, name):
        return [q for q in self.funcs if q.endswith("." + name)]

    def _ann_type(self, ann):
        if ann is None:
            return set()
        s = norm(ann)
        out = set()
        for c in self.classes:
            if c in {t.id for t in ast.walk(ann) if isinstance(t, ast.Name)} or f"'{c}'" in s:
                out.add(c)
        if "ndarray" in s:
            out.add("ndarray?")
        if not out and any(k in s for k in ("dict", "Dict")):
            out.add("dict")
        if not out and any(k in s for k in ("list", "List")):
            out.add("list")
        if not out and s in ("int", "float", "str", "bool", "Union[int, float]", "Union[float, int]"):
            out.add("num")
        return out

    def _collect_field_annotations(self):
        for c, (m, cd) in self.classes.items():
            for k in reversed(self.mro(c)):
                for st in self.classes[k][1].body:
                    if isinstance(st, ast.AnnAssign) and isinstance(st.target, ast.Name):
                        ts = self._ann_type(st.annotation)
                        if ts:
                            self.field_types[c].setdefault(st.target.id, set()).update(ts)

    def field_type(self, cls, field):
        out = set()
        if cls in self.classes:
            for k in self.mro(cls):
                if (k, field) in self.field_hints:
                    return {self.field_hints[(k, field)]}
            for k in self.mro(cls):
                out |= self.field_types.get(k, {}).get(field, set())
        return out

    def has_inplace(self, cls, opname):
        return self.resolve_method(cls, f"__i{opname}__") is not None

    # ---- fixpoint
    def solve(self, max_iter=12):
        for it in range(max_iter):
            before = sum(s.size() for s in self.summ.values()) + sum(len(v) for pt in self.param_types.values() for v in pt.values()) \
                + sum(len(ts) for ft in self.field_types.values() for ts in ft.values())
            for q in self.funcs:
                FunctionAnalysis(self, q).run()
            after = sum(s.size() for s in self.summ.values()) + sum(len(v) for pt in self.param_types.values() for v in pt.values()) \
                + sum(len(ts) for ft in self.field_types.values() for ts in ft.values())
            if after == before:
                self.iterations = it + 1
                return
        self.iterations = max_iter


class Result:
    def __init__(self):
        self.mut = set()        # (i, path, via, node)
        self.ret = set()        # values
        self.ffields = {}       # (site, field) -> set(values)
        self.type_writes = set()   # (type of written object, field, via)


class FunctionAnalysis:
    def __init__(self, prog, q):
        self.p, self.q = prog, q
        self.mod, self.fn, self.cls = prog.funcs[q]
        self.res = Result()
        self.sites = itertools.count()
        self.site_of = {}
        self.unresolved = []
        self.edges = set()
        self.cur_env = None
        self.store_cond = {}
        self.exit_envs = []

    # ---- helpers
    def site(self, node, tag=""):
        k = (id(node), tag)
        if k not in self.site_of:
            self.site_of[k] = f"{getattr(node, 'lineno', 0)}:{getattr(node, 'col_offset', 0)}{tag}"
        return self.site_of[k]

    def fresh(self, node, ty=None, tag=""):
        return (("F", self.site(node, tag)), ty)

    def params(self):
        a = self.fn.args
        ps = [x.arg for x in a.posonlyargs + a.args]
        return ps

    def initial_env(self):
        env = {}
        a = self.fn.args
        ps = self.params()
        is_static = any(isinstance(d, ast.Name) and d.id == "staticmethod" for d in self.fn.decorator_list)
        for i, name in enumerate(ps):
            types = set()
            if i == 0 and self.cls and not is_static and name in ("self", "cls"):
                types.add(self.cls if name == "self" else f"class:{self.cls}")
            ann = (a.posonlyargs + a.args)[i].annotation
            types |= self.p._ann_type(ann)
            h = self.p.hints.get((self.q, name))
            if h is None and self.cls:
                for k in self.p.mro(self.cls):
                    h = h or self.p.hints.get((f"{k}.{self.fn.name}", name))
            if h:
                types |= set(h) if isinstance(h, (set, list, tuple)) else {h}
            types |= self.p.param_types[self.q].get(i, set())
            env[name] = {(P(i), t) for t in types} or {(P(i), None)}
        n = len(ps)
        if a.vararg:
            h = self.p.hints.get((self.q, a.vararg.arg))
            env[a.vararg.arg] = {(P(n), "list")}
            self.vararg_elem = (n, h)
            n += 1
        else:
            self.vararg_elem = None
        for k in a.kwonlyargs:
            env[k.arg] = {(P(n), None)}
            n += 1
        if a.kwarg:
            env[a.kwarg.arg] = {(("F", "kwargs"), "dict")}
        return env

    # ---- evaluation
    def field(self, val, attr):
        out = set()
        for (o, t) in val:
            if t in IMMUTABLE_TYPES and o[0] != "N":
                out.add(N)       # a number/string has no such field: the path is infeasible for this alternative
                continue
            fts = self.p.field_type(t, attr) if t in self.p.classes else set()
            if o[0] == "P":
                if not o[2] and self.cur_env is not None and f"@{o[1]}.{attr}" in self.cur_env:
                    out |= self.cur_env[f"@{o[1]}.{attr}"]     # field of a parameter object written earlier on this path
                    continue
                path = o[2] + (attr,)
                if len(path) > MAXPATH:
                    path = path[:MAXPATH]
                for ft in (fts or {None}):
                    out.add((("P", o[1], path), ft))
            elif o[0] == "F":
                known = self.res.ffields.get((o[1], attr))
                if known:
                    out |= known
                else:
                    for ft in (fts or {None}):
                        out.add((("F", o[1] + "." + attr), ft))
            elif o[0] == "G":
                for ft in (fts or {None}):
                    out.add((("G", o[1] + "." + attr), ft))
            else:
                out.add(N)
        return out or {N}

    def elem(self, val):
        out = set()
        for (o, t) in val:
            if o[0] == "P":
                et = None
                if self.vararg_elem and o[1] == self.vararg_elem[0] and not o[2]:
                    et = self.vararg_elem[1]
                path = o[2] + ("*",)
                if len(path) > MAXPATH:
                    path = path[:MAXPATH]
                if not et and t and "<" in t:
                    et = t[t.index("<") + 1:-1]
                out.add((("P", o[1], path), et if et else ("ndarray?" if t == "ndarray?" else None)))
            elif o[0] == "F":
                known = self.res.ffields.get((o[1], "*"))
                if known:
                    out |= known
                else:
                    out.add((("F", o[1] + ".*"), t[t.index("<") + 1:-1] if t and "<" in t else None))
            elif o[0] == "G":
                cl = self.p.class_lists.get(o[1])
                if cl:
                    for c in cl:
                        out.add((("G", c), f"class:{c}"))
                else:
                    out.add((("G", o[1] + ".*"), None))
            else:
                out.add(N)
        return out or {N}

    def ev(self, e, env):
        self.cur_env = env
        if isinstance(e, ast.Constant):
            return {N}
        if isinstance(e, ast.Name):
            if e.id in env:
                return set(env[e.id])
            if e.id in self.p.classes:
                return {(("G", e.id), f"class:{e.id}")}
            if e.id in self.p.class_lists:
                return {(("G", e.id), "list")}
            if e.id in ("True", "False", "None") or e.id in FRESH_BUILTINS:
                return {N}
            return {(("G", e.id), None)}
        if isinstance(e, ast.NamedExpr):
            v = self.ev(e.value, env)
            env[e.target.id] = set(v)
            return v
        if isinstance(e, ast.Attribute):
            base = self.ev(e.value, env)
            return self.field(base, e.attr)
        if isinstance(e, ast.Subscript):
            base = self.ev(e.value, env)
            self.ev(e.slice, env)
            out = set()
            for (o, t) in base:
                if t in self.p.classes:
                    gi = self.p.dispatch(t, "__getitem__")
                    if gi:
                        for c in gi:
                            out |= self.call(c, [{(o, t)}, self.ev(e.slice, env)], e)
                        continue
                out |= self.elem({(o, t)})
            return out
        if isinstance(e, ast.Slice):
            for x in (e.lower, e.upper, e.step):
                if x is not None:
                    self.ev(x, env)
            return {N}
        if isinstance(e, ast.BinOp):
            l, r = self.ev(e.left, env), self.ev(e.right, env)
            return self.binop(BINOP.get(type(e.op)), l, r, e)
        if isinstance(e, ast.UnaryOp):
            v = self.ev(e.operand, env)
            out = {self.fresh(e)} if isinstance(e.op, (ast.USub, ast.UAdd, ast.Invert)) else {N}
            name = {ast.USub: "__neg__", ast.UAdd: "__pos__", ast.Invert: "__invert__"}.get(type(e.op))
            if name:
                for (o, t) in v:
                    if t in self.p.classes:
                        for c in self.p.dispatch(t, name):
                            out |= self.call(c, [{(o, t)}], e)
            return out
        if isinstance(e, ast.Compare):
            l = self.ev(e.left, env)
            for op, c in zip(e.ops, e.comparators):
                r = self.ev(c, env)
                dn = {ast.Eq: "__eq__", ast.NotEq: "__ne__", ast.Lt: "__lt__", ast.LtE: "__le__", ast.Gt: "__gt__",
                      ast.GtE: "__ge__", ast.In: "__contains__", ast.NotIn: "__contains__"}.get(type(op))
                if dn:
                    recv, arg = (r, l) if dn == "__contains__" else (l, r)
                    for (o, t) in recv:
                        if t in self.p.classes:
                            tgt = self.p.dispatch(t, dn) or (self.p.dispatch(t, "__eq__") if dn == "__ne__" else [])
                            for cq in tgt:
                                self.call(cq, [{(o, t)}, arg], e)
                l = r
            return {N}
        if isinstance(e, ast.BoolOp):
            out = set()
            for x in e.values:
                out |= self.ev(x, env)
            return out
        if isinstance(e, ast.IfExp):
            self.ev(e.test, env)
            e1 = self.narrow(e.test, env, True)
            e2 = self.narrow(e.test, env, False)
            out = set()
            if e1 is not None:
                out |= self.ev(e.body, e1)
            if e2 is not None:
                out |= self.ev(e.orelse, e2)
            return out or {N}
        if isinstance(e, (ast.Tuple, ast.List, ast.Set)):
            f = self.fresh(e, "tuple" if isinstance(e, ast.Tuple) else "list")
            vals = set()
            for x in e.elts:
                vals |= self.ev(x.value if isinstance(x, ast.Starred) else x, env)
            self.res.ffields.setdefault((f[0][1], "*"), set()).update(vals)
            return {f}
        if isinstance(e, ast.Dict):
            f = self.fresh(e, "dict")
            vals = set()
            for k, v in zip(e.keys, e.values):
                if k is not None:
                    self.ev(k, env)
                vals |= self.ev(v, env)
            self.res.ffields.setdefault((f[0][1], "*"), set()).update(vals)
            return {f}
        if isinstance(e, (ast.ListComp, ast.SetComp, ast.GeneratorExp, ast.DictComp)):
            env2 = dict_copy(env)
            for g in e.generators:
                it = self.ev(g.iter, env2)
                self.assign(g.target, self.elem(it), env2, e)
                for c in g.ifs:
                    self.ev(c, env2)
            f = self.fresh(e, "dict" if isinstance(e, ast.DictComp) else "list")
            if isinstance(e, ast.DictComp):
                self.ev(e.key, env2)
                vals = self.ev(e.value, env2)
            else:
                vals = self.ev(e.elt, env2)
            self.res.ffields.setdefault((f[0][1], "*"), set()).update(vals)
            return {f}
        if isinstance(e, ast.JoinedStr):
            for v in e.values:
                if isinstance(v, ast.FormattedValue):
                    val = self.ev(v.value, env)
                    for (o, t) in val:
                        if t in self.p.classes:
                            for dn in ("__format__", "__str__"):
                                for cq in self.p.dispatch(t, dn):
                                    self.call(cq, [{(o, t)}], e)
            return {N}
        if isinstance(e, ast.Call):
            return self.evcall(e, env)
        if isinstance(e, ast.Lambda):
            return {N}
        if isinstance(e, ast.Starred):
            return self.ev(e.value, env)
        for c in ast.iter_child_nodes(e):
            if isinstance(c, ast.expr):
                self.ev(c, env)
        return {N}

    def binop(self, opname, l, r, node, inplace=False):
        out = {self.fresh(node, None, "op")}
        if opname is None:
            return out
        handled = False
        for (lo, lt) in l:
            if lt in self.p.classes:
                for c in self.p.dispatch(lt, f"__{opname}__"):
                    out |= self.call(c, [{(lo, lt)}, r], node)
                    handled = True
        for (ro, rt) in r:
            if rt in self.p.classes:
                for c in self.p.dispatch(rt, f"__r{opname}__"):
                    out |= self.call(c, [{(ro, rt)}, l], node)
        # result type: array-ness propagates
        if any(t == "ndarray?" for _, t in l | r):
            out.add(self.fresh(node, "ndarray?", "arr"))
        return out

    # ---- calls
    def bind_param_types(self, callee, argvals):
        m, fn, cls = self.p.funcs[callee]
        pt = self.p.param_types[callee]
        for i, v in enumerate(argvals):
            ts = {t for (_, t) in v if t is not None and t != "num"}
            if ts:
                pt.setdefault(i, set()).update(ts)

    def call(self, callee, argvals, node, recv_fresh=None):
        """Apply the summary of `callee` to argument values; returns the result value."""
        self.edges.add(callee)
        self.bind_param_types(callee, argvals)
        s = self.p.summ[callee]
        out = set()
        for (j, cp, cond, origin) in s.mut:
            if j < len(argvals):
                for (o, t) in argvals[j]:
                    if o[0] == "P" and self.cond_ok(cond, t):
                        self.addmut(o, cp, callee, node, origin)
        for (i, f, j, cp, cond, vt) in s.stores:
            if i < len(argvals) and j < len(argvals):
                src = set()
                for (o, t) in argvals[j]:
                    if self.cond_ok(cond, t):
                        src |= self.path_from({(o, t)}, cp)
                if vt is not None:
                    src = {(o, vt) for (o, _) in src}     # the callee established that the stored object is immutable
                if not src:
                    continue
                parts = f.split(".")
                for (o, t) in argvals[i]:
                    if o[0] == "F":
                        parent = o[1] + "".join("." + x for x in parts[:-1])
                        self.res.ffields.setdefault((parent, parts[-1]), set()).update(src)
                    elif o[0] == "P" and not o[2] and len(parts) == 1 and self.cur_env is not None:
                        key = f"@{o[1]}.{f}"
                        self.cur_env[key] = set(self.cur_env.get(key) or self.field({(o, t)}, f)) | src
        rts = s.ret_types or {None}
        for (j, cp, cond) in s.ret_alias:
            if j < len(argvals):
                ok = {(o, t) for (o, t) in argvals[j] if self.cond_ok(cond, t)}
                if ok:
                    out |= self.path_from(ok, cp, rts)
        site = self.site(node, "ret:" + callee)
        if s.ret_types or s.ret_fields or not s.ret_alias:
            for rt in rts:
                out.add((("F", site), rt))
        for (fp, j, cp, cond, vt) in s.ret_fields:
            if j < len(argvals):
                ok = {(o, t) for (o, t) in argvals[j] if self.cond_ok(cond, t)}
                if not ok:
                    continue
                parts = fp.split(".")
                parent = site + "".join("." + x for x in parts[:-1])
                src = self.path_from(ok, cp)
                if vt is not None:
                    src = {(o, vt) for (o, _) in src}
                self.res.ffields.setdefault((parent, parts[-1]), set()).update(src)
        return out or {N}

    def cond_ok(self, cond, t):
        """May an argument of static type t satisfy the callee's type condition for this write?"""
        if cond is None or t is None:
            return True
        t = base_t(t)
        if t in cond:
            return True
        if t in self.p.classes:
            return any(c in self.p.classes and (c in self.p.mro(t) or t in self.p.mro(c)) for c in cond)
        return False

    def root_cond(self, i, env):
        """Types currently known for parameter i itself (narrowing included); None when unknown."""
        ts = set()
        for vals in env.values():
            for (o, t) in vals:
                if o == ("P", i, ()):
                    ts.add(base_t(t))
        if not ts or None in ts:
            return None
        return frozenset(ts)

    def addmut(self, o, extra, via, node, origin=None):
        path = (o[2] + tuple(extra))[:MAXPATH]
        cond = self.root_cond(o[1], self.cur_env) if self.cur_env is not None else None
        rec = (o[1], path, via, self.where(node), cond, origin or self.q)
        self.res.mut.add(rec)

    def path_from(self, val, cp, types=None):
        cur = set(val)
        for f in cp:
            cur = self.elem(cur) if f == "*" else self.field(cur, f)
        if types and types != {None}:
            cur = {(o, t if t is not None else rt) for (o, t) in cur for rt in types}
        return cur

    def where(self, node):
        n = node
        while not isinstance(n, ast.stmt) and hasattr(n, "_parent"):
            n = n._parent
        return norm(n)[:110]

    def construct(self, cname, args, node):
        f = self.fresh(node, cname, "new:" + cname)
        out = {f}
        newm = self.p.resolve_method(cname, "__new__")
        if newm:
            r = self.call(newm, [{(("G", cname), f"class:{cname}")}] + args, node)
            # __new__ may return something else entirely (e.g. Unit('m') returns a Quantity)
            out = {(o, t) for (o, t) in r if t is not None} or out
            r2 = set()
            for (o, t) in out:
                r2.add((o, t))
            out = r2
            # fields stored by __new__ on the object it created are in its ret_fields (handled by call)
            return out
        init = self.p.resolve_method(cname, "__init__")
        if init:
            self.call(init, [{f}] + args, node)
        post = self.p.resolve_method(cname, "__post_init__")
        if post:
            self.call(post, [{f}], node)
        return out

    def evcall(self, e, env):
        args = []
        for a in e.args:
            args.append(self.ev(a.value if isinstance(a, ast.Starred) else a, env))
        kw = {k.arg: self.ev(k.value, env) for k in e.keywords}
        fnode = e.func
        # out= keyword of numpy functions writes into its argument
        if "out" in kw:
            for (o, t) in kw["out"]:
                if o[0] == "P":
                    self.addmut(o, (), "<out=>", e)
        if isinstance(fnode, ast.Name):
            n = fnode.id
            if n in env and n not in self.p.classes and n not in self.p.funcs:
                out = set()
                for (o, t) in env[n]:
                    if t and t.startswith("class:") and t[6:] in self.p.classes:
                        out |= self.construct(t[6:], args, e)
                if not out:
                    self.unresolved.append(f"call of local {n}")
                    out = {self.fresh(e)}
                return out
            if n in self.p.classes:
                return self.construct(n, self.kwargs_to_positional(self.p.resolve_method(n, "__init__") or self.p.resolve_method(n, "__new__"), args, kw, skip_self=True), e)
            if n in self.p.funcs:
                return self.call(n, self.kwargs_to_positional(n, args, kw), e)
            if n in ("dict", "list", "tuple", "set", "sorted", "reversed", "frozenset"):
                f = self.fresh(e, "dict" if n == "dict" else "list")
                if args:
                    self.res.ffields.setdefault((f[0][1], "*"), set()).update(self.elem(args[0]))
                return {f}
            if n in ("getattr",) and len(e.args) >= 2:
                if isinstance(e.args[1], ast.Constant) and isinstance(e.args[1].value, str):
                    return self.field(args[0], e.args[1].value)
                # dynamic attribute: union over the fields we know plus bound methods
                out = {self.fresh(e, "boundmethod?", "getattr")}
                self._dyn_recv = args[0]
                return out
            if n == "super":
                return {(("G", "super"), f"super:{self.cls}")}
            if n in FRESH_BUILTINS:
                if n in ("str", "repr", "format", "print"):
                    for v in args:
                        for (o, t) in v:
                            if t in self.p.classes:
                                for cq in self.p.dispatch(t, "__str__" if n != "repr" else "__repr__"):
                                    self.call(cq, [{(o, t)}], e)
                if n in ("float", "int", "str", "bool", "len", "isinstance", "hasattr", "abs", "round", "max", "min", "sum"):
                    return {N}
                return {self.fresh(e)}
            self.unresolved.append(f"call of {n}")
            return {self.fresh(e)}
        if isinstance(fnode, ast.Attribute):
            # module functions
            root = fnode
            while isinstance(root, ast.Attribute):
                root = root.value
            if isinstance(root, ast.Name) and root.id in PURE_MODULES and root.id not in env:
                dn = dotted_name(fnode) or ""
                if dn in ("np.put", "np.copyto", "np.place", "np.putmask", "np.fill_diagonal", "numpy.put") and args:
                    for (o, t) in args[0]:
                        if o[0] == "P":
                            self.addmut(o, (), f"<{dn}>", e)
                arrayish = dn.split(".")[0] in ("np", "numpy")
                return {self.fresh(e, "ndarray?" if arrayish else None)}
            if isinstance(fnode.value, ast.Call) and isinstance(fnode.value.func, ast.Name) and fnode.value.func.id == "super":
                out = set()
                if self.cls:
                    for k in self.p.mro(self.cls)[1:]:
                        cq = f"{k}.{fnode.attr}"
                        if cq in self.p.funcs:
                            selfv = env.get(self.params()[0], {N}) if self.params() else {N}
                            out |= self.call(cq, [selfv] + self.kwargs_to_positional(cq, args, kw, skip_self=True), e)
                            break
                return out or {N}
            if dotted_name(fnode) == "object.__new__" and args:
                out = set()
                for (o, t) in args[0]:
                    if t and t.startswith("class:"):
                        out.add(self.fresh(e, t[6:], "objnew"))
                return out or {self.fresh(e)}
            recv = self.ev(fnode.value, env)
            out = set()
            attr = fnode.attr
            for (o, t) in recv:
                if t and t.startswith("class:") and t[6:] in self.p.classes:
                    cq = self.p.resolve_method(t[6:], attr)
                    if cq:
                        m, fn, _ = self.p.funcs[cq]
                        static = any(isinstance(d, ast.Name) and d.id == "staticmethod" for d in fn.decorator_list)
                        a2 = args if static else [{(o, t)}] + args
                        out |= self.call(cq, self.kwargs_to_positional(cq, a2, kw), e)
                        continue
                if t in self.p.classes:
                    tg = self.p.dispatch(t, attr)
                    if tg:
                        for cq in tg:
                            out |= self.call(cq, [{(o, t)}] + self.kwargs_to_positional(cq, args, kw, skip_self=True), e)
                        continue
                    # attribute holding a callable (e.g. tokens.atom)
                    out.add(self.fresh(e))
                    continue
                if base_t(t) in ("ndarray?", "dict", "list", None, "boundmethod?"):
                    if attr in MUTATORS:
                        if o[0] == "P":
                            self.addmut(o, (), f"<container>.{attr}", e)
                    if attr in ("copy", "astype", "items", "keys", "values", "get", "tolist", "flatten", "reshape",
                                "split", "strip", "lstrip", "rstrip", "replace", "join", "startswith", "endswith",
                                "format", "lower", "upper", "is_integer", "limit_denominator", "group", "match"):
                        if attr in ("items", "values", "get"):
                            out |= self.elem({(o, t)})
                        out.add(self.fresh(e, "ndarray?" if t == "ndarray?" and attr in ("copy", "astype", "reshape", "flatten") else
                                           ("dict" if t == "dict" and attr == "copy" else None)))
                        continue
                    if t is None and attr not in MUTATORS:
                        # unknown receiver: class-hierarchy analysis by method name over the whole scope
                        cands = self.p.by_name(attr)
                        if cands:
                            for cq in cands:
                                out |= self.call(cq, [{(o, cq.split('.')[0])}] + self.kwargs_to_positional(cq, args, kw, skip_self=True), e)
                            self.unresolved.append(f"CHA {attr} -> {len(cands)}")
                            continue
                    out.add(self.fresh(e))
                    continue
                out.add(self.fresh(e))
            return out or {self.fresh(e)}
        if isinstance(fnode, ast.Call):
            # getattr(self, name)(...) -> every method of the receiver's class family matching the prefix idiom
            inner = self.ev(fnode, env)
            out = set()
            if isinstance(fnode.func, ast.Name) and fnode.func.id == "getattr" and fnode.args:
                recv = self.ev(fnode.args[0], env)
                for (o, t) in recv:
                    if t in self.p.classes:
                        names = set()
                        for k in [t] + self.p.subclasses(t):
                            for qn in self.p.funcs:
                                if qn.startswith(k + "._convert"):
                                    names.add(qn)
                        for cq in sorted(names):
                            out |= self.call(cq, [{(o, t)}] + args, e)
            return out or {self.fresh(e)}
        self.ev(fnode, env)
        return {self.fresh(e)}

    def kwargs_to_positional(self, callee, args, kw, skip_self=False):
        if not kw or callee is None or callee not in self.p.funcs:
            return list(args)
        m, fn, cls = self.p.funcs[callee]
        names = [a.arg for a in fn.args.posonlyargs + fn.args.args]
        if skip_self and names:
            names = names[1:]
        out = list(args)
        for i, nm in enumerate(names):
            if i >= len(out):
                out.append(kw.get(nm, {N}))
        return out

    # ---- statements
    def assign(self, target, val, env, node, strong=True):
        if isinstance(target, ast.Name):
            env[target.id] = set(val)
        elif isinstance(target, (ast.Tuple, ast.List)):
            if isinstance(getattr(node, "value", None), (ast.Tuple, ast.List)) and len(node.value.elts) == len(target.elts) \
                    and not getattr(self, "_in_unpack", False):
                self._in_unpack = True
                try:
                    vals = [self.ev(v, env) for v in node.value.elts]
                    for t, v in zip(target.elts, vals):
                        self.assign(t, v, env, node)
                finally:
                    self._in_unpack = False
            else:
                for t in target.elts:
                    self.assign(t.value if isinstance(t, ast.Starred) else t, self.elem(val), env, node)
        elif isinstance(target, ast.Attribute):
            base = self.ev(target.value, env)
            for (o, t) in base:
                self.res.type_writes.add((t, target.attr, self.q))
                if o[0] == "P":
                    self.addmut(o, (target.attr,), "<store>", node)
                    if not o[2]:
                        key = f"@{o[1]}.{target.attr}"
                        if len(base) == 1:
                            env[key] = set(val)
                        else:
                            env[key] = set(env.get(key) or self.field({(o, t)}, target.attr)) | set(val)
                        for (vo, vt) in val:
                            if vo[0] == "P":
                                k = (o[1], target.attr, vo[1], vo[2])
                                c = self.root_cond(vo[1], env)
                                if k in self.store_cond and (self.store_cond[k] is None or c is None):
                                    self.store_cond[k] = None
                                elif k in self.store_cond:
                                    self.store_cond[k] = self.store_cond[k] | c
                                else:
                                    self.store_cond[k] = c
                elif o[0] == "F":
                    self.res.ffields[(o[1], target.attr)] = set(val) if len(base) == 1 else \
                        (self.res.ffields.get((o[1], target.attr), set()) | set(val))
                # learn field types
                if t in self.p.classes:
                    ts = {vt for (_, vt) in val if vt is not None and vt != "num"}
                    if ts:
                        self.p.field_types.setdefault(t, {}).setdefault(target.attr, set()).update(ts)
        elif isinstance(target, ast.Subscript):
            base = self.ev(target.value, env)
            self.ev(target.slice, env)
            for (o, t) in base:
                if t in self.p.classes and self.p.dispatch(t, "__setitem__"):
                    for cq in self.p.dispatch(t, "__setitem__"):
                        self.call(cq, [{(o, t)}, {N}, val], node)
                    continue
                if o[0] == "P":
                    self.addmut(o, (), "<setitem>", node)
                elif o[0] == "F":
                    self.res.ffields.setdefault((o[1], "*"), set()).update(val)

    # ---- narrowing --------------------------------------------------------
    def _slot(self, node, env):
        """Environment key of a narrowable expression: a local name or a field of a parameter object."""
        if isinstance(node, ast.Name) and node.id in env:
            return node.id
        if isinstance(node, ast.Attribute) and isinstance(node.value, ast.Name) and node.value.id in env:
            objs = env[node.value.id]
            if len(objs) >= 1 and all(o[0] == "P" and not o[2] for (o, _) in objs):
                i = next(iter(objs))[0][1]
                if all(o[1] == i for (o, _) in objs):
                    return f"@{i}.{node.attr}"
        return None

    def _slot_values(self, key, node, env):
        if key in env:
            return set(env[key])
        return self.ev(node, dict_copy(env))

    def _type_names(self, tn):
        tys = set()
        for x in (tn.elts if isinstance(tn, (ast.Tuple, ast.List)) else [tn]):
            s = norm(x)
            if s in self.p.classes:
                tys.add(s)
            elif s in ("np.ndarray", "numpy.ndarray"):
                tys.add("ndarray?")
            elif s in ("int", "float", "str", "bool", "Decimal", "complex", "np.bool_", "np.float64", "bytes"):
                tys.add("num")
            elif s == "dict":
                tys.add("dict")
            elif s in ("list", "tuple"):
                tys.add(s)
            else:
                tys.add(None)
        return tys

    def narrow(self, test, env, truth):
        """Returns the environment refined by `test` having the given truth value (a new dict)."""
        if env is None:
            return None
        if isinstance(test, ast.UnaryOp) and isinstance(test.op, ast.Not):
            return self.narrow(test.operand, env, not truth)
        if isinstance(test, ast.BoolOp):
            conj = isinstance(test.op, ast.And)
            if conj == truth:
                # all operands have the truth value `truth`
                cur = env
                for v in test.values:
                    cur = self.narrow(v, cur, truth)
                    if cur is None:
                        return None
                return cur
            # at least one operand has the value `truth`: union of the feasible alternatives
            res = None
            for v in test.values:
                res = join_env(res, self.narrow(v, env, truth))
            return res
        env = dict_copy(env)
        if isinstance(test, ast.Compare) and len(test.ops) == 1 and isinstance(test.comparators[0], ast.Constant) \
                and test.comparators[0].value is None and isinstance(test.ops[0], (ast.Is, ast.IsNot)):
            key = self._slot(test.left, env)
            if key is not None:
                is_none = isinstance(test.ops[0], ast.Is) == truth
                if is_none:
                    env[key] = {N}
            return env
        if isinstance(test, ast.Call) and isinstance(test.func, ast.Name) and test.func.id == "isinstance" and len(test.args) == 2:
            key = self._slot(test.args[0], env)
            tys = self._type_names(test.args[1])
            # shape correlation (assumption A, see DESIGN): an uncertainty is an array only if the value is one
            if not truth and tys == {"ndarray?"} and isinstance(test.args[0], ast.Attribute) and test.args[0].attr == "value":
                ek = self._slot(ast.Attribute(value=test.args[0].value, attr="error", ctx=ast.Load()), env)
                if ek is not None and ek in env:
                    env[ek] = {(o, "num") for (o, _) in env[ek]}
            if key is None:
                return env
            cur = self._slot_values(key, test.args[0], env)
            if truth:
                new = set()
                for (o, t) in cur:
                    bt = base_t(t)
                    if t is None:
                        for ty in tys:
                            new.add((o, ty))
                    elif bt in tys or (bt in self.p.classes and any(ty in self.p.classes and ty in self.p.mro(bt) for ty in tys)):
                        new.add((o, t))
                    elif bt in self.p.classes and any(ty in self.p.classes and bt in self.p.mro(ty) for ty in tys):
                        for ty in tys:
                            if ty in self.p.classes and bt in self.p.mro(ty):
                                new.add((o, ty))
                    elif None in tys:
                        new.add((o, t))
                if not new and cur and all(t is not None for (_, t) in cur) and None not in tys:
                    return None      # no alternative of the value can be an instance: dead path
                env[key] = new or {(o, ty) for (o, _) in cur for ty in tys}
            else:
                # pseudo types (num, list, ...) are coarse: a failed isinstance test cannot exclude them
                new = {(o, t) for (o, t) in cur if not (base_t(t) in self.p.classes and any(
                    ty in self.p.classes and ty in self.p.mro(base_t(t)) for ty in tys))}
                if not new and cur:
                    return None
                env[key] = new
            return env
        if isinstance(test, ast.Call) and dotted_name(test.func) in ("np.isscalar", "numpy.isscalar") and len(test.args) == 1:
            key = self._slot(test.args[0], env)
            if key is not None and truth:
                cur = self._slot_values(key, test.args[0], env)
                new = {(o, "num") for (o, t) in cur if t in (None, "num")}
                if not new and cur:
                    return None
                env[key] = new
            return env
        return env

    def block(self, stmts, env):
        """Returns env after the block or None when the block always leaves (return/raise/continue/break)."""
        for st in stmts:
            env = self.stmt(st, env)
            if env is None:
                return None
        return env

    def stmt(self, st, env):
        self.cur_env = env
        if isinstance(st, ast.Assign):
            v = self.ev(st.value, env)
            for t in st.targets:
                self.assign(t, v, env, st)
            return env
        if isinstance(st, ast.AnnAssign):
            if st.value is not None:
                self.assign(st.target, self.ev(st.value, env), env, st)
            return env
        if isinstance(st, ast.AugAssign):
            v = self.ev(st.value, env)
            tv = self.ev(st.target, env) if not isinstance(st.target, ast.Name) else set(env.get(st.target.id, {N}))
            opn = BINOP.get(type(st.op))
            res = set()
            for (o, t) in tv:
                if t in self.p.classes:
                    if opn and self.p.has_inplace(t, opn):
                        for cq in self.p.dispatch(t, f"__i{opn}__"):
                            res |= self.call(cq, [{(o, t)}, v], st)
                        if o[0] == "P":
                            self.addmut(o, (), f"<in-place {opn}>", st)
                    else:
                        res |= self.binop(opn, {(o, t)}, v, st)
                elif t in IMMUTABLE_TYPES:
                    res.add(N)
                else:
                    # unknown / array / list: the in-place operator mutates the object itself
                    if o[0] == "P":
                        self.addmut(o, (), f"<in-place {opn} on {t or 'object of unknown type'}>", st)
                    res.add((o, t))
            # rebinding of the target
            if isinstance(st.target, ast.Name):
                env[st.target.id] = res or {N}
            else:
                self.assign(st.target, res or {N}, env, st)
            return env
        if isinstance(st, ast.Expr):
            self.ev(st.value, env)
            return env
        if isinstance(st, ast.Return):
            if st.value is not None:
                v = self.ev(st.value, env)
                self.res.ret |= v
                self.export_return(v, env)
            self.exit_envs.append(dict_copy(env))
            return None
        if isinstance(st, ast.Raise):
            if st.exc is not None:
                self.ev(st.exc, env)
            return None
        if isinstance(st, (ast.Break, ast.Continue)):
            self._loop_exits.append(dict_copy(env))
            return None
        if isinstance(st, ast.If):
            self.ev(st.test, env)
            e1 = self.narrow(st.test, env, True)
            e2 = self.narrow(st.test, env, False)
            r1 = self.block(st.body, e1) if e1 is not None else None
            r2 = self.block(st.orelse, e2) if e2 is not None else None
            return join_env(r1, r2)
        if isinstance(st, (ast.For, ast.While)):
            saved = getattr(self, "_loop_exits", [])
            self._loop_exits = []
            cur = dict_copy(env)
            for _ in range(3):
                e0 = dict_copy(cur)
                if isinstance(st, ast.For):
                    it = self.ev(st.iter, e0)
                    el = self.elem(it)
                    if isinstance(st.iter, ast.Call) and isinstance(st.iter.func, ast.Attribute) and st.iter.func.attr in ("items",) \
                            and isinstance(st.target, ast.Tuple) and len(st.target.elts) == 2:
                        base = self.ev(st.iter.func.value, e0)
                        self.assign(st.target.elts[0], {N}, e0, st)
                        self.assign(st.target.elts[1], self.elem(base), e0, st)
                    elif isinstance(st.iter, ast.Call) and isinstance(st.iter.func, ast.Name) and st.iter.func.id == "enumerate" \
                            and isinstance(st.target, ast.Tuple) and len(st.target.elts) == 2 and st.iter.args:
                        base = self.ev(st.iter.args[0], e0)
                        self.assign(st.target.elts[0], {N}, e0, st)
                        self.assign(st.target.elts[1], self.elem(base), e0, st)
                    elif isinstance(st.iter, ast.Call) and isinstance(st.iter.func, ast.Attribute) and st.iter.func.attr in ("values",):
                        self.assign(st.target, self.elem(self.ev(st.iter.func.value, e0)), e0, st)
                    elif isinstance(st.iter, ast.Call) and isinstance(st.iter.func, ast.Attribute) and st.iter.func.attr in ("keys",):
                        self.assign(st.target, {N}, e0, st)
                    else:
                        self.assign(st.target, el, e0, st)
                else:
                    self.ev(st.test, e0)
                r = self.block(st.body, e0)
                nxt = join_env(cur, r)
                for ex in self._loop_exits:
                    nxt = join_env(nxt, ex)
                if env_eq(nxt, cur):
                    break
                cur = nxt
            self._loop_exits = saved
            if st.orelse:
                r = self.block(st.orelse, dict_copy(cur))
                return join_env(cur, r) if r is not None else cur
            return cur
        if isinstance(st, ast.With):
            for it in st.items:
                v = self.ev(it.context_expr, env)
                if it.optional_vars is not None:
                    self.assign(it.optional_vars, v, env, st)
            return self.block(st.body, env)
        if isinstance(st, ast.Try):
            e0 = dict_copy(env)
            r = self.block(st.body, env)
            outs = [r]
            for h in st.handlers:
                eh = join_env(dict_copy(e0), r) or dict_copy(e0)
                if h.name:
                    eh[h.name] = {N}
                outs.append(self.block(h.body, eh))
            res = None
            for o in outs:
                res = join_env(res, o)
            if st.orelse and r is not None:
                res = join_env(res, self.block(st.orelse, dict_copy(r)))
            if st.finalbody:
                res = self.block(st.finalbody, res if res is not None else dict_copy(e0))
            return res
        if isinstance(st, ast.Delete):
            for t in st.targets:
                if isinstance(t, ast.Subscript):
                    for (o, ty) in self.ev(t.value, env):
                        if ty in self.p.classes and self.p.dispatch(ty, "__delitem__"):
                            for cq in self.p.dispatch(ty, "__delitem__"):
                                self.call(cq, [{(o, ty)}, {N}], st)
                        elif o[0] == "P":
                            self.addmut(o, (), "<delitem>", st)
                elif isinstance(t, ast.Attribute):
                    for (o, ty) in self.ev(t.value, env):
                        if o[0] == "P":
                            self.addmut(o, (t.attr,), "<delattr>", st)
            return env
        if isinstance(st, ast.Assert):
            self.ev(st.test, env)
            return env
        if isinstance(st, (ast.FunctionDef, ast.AsyncFunctionDef)):
            # nested helper: analysed inline as part of the enclosing function (closures share the environment)
            sub_env = dict_copy(env)
            for a in st.args.args:
                sub_env[a.arg] = {N}
            saved_ret = set(self.res.ret)
            self.block(st.body, sub_env)
            self.res.ret = saved_ret
            env[st.name] = {N}
            return env
        return env

    def run(self):
        env = self.initial_env()
        self._loop_exits = []
        end = self.block(self.fn.body, env)
        if end is not None:
            self.exit_envs.append(end)
        for cb in self.p.callbacks.get(self.q, []):
            if cb in self.p.funcs:
                self.edges.add(cb)
        s = self.p.summ[self.q]
        for (i, path, via, where, cond, origin) in self.res.mut:
            s.mut.add((i, path, cond, origin))
        # fields of parameter objects at the exits: what the function leaves stored in them
        for ex in self.exit_envs:
            for key, vals in ex.items():
                if not key.startswith("@"):
                    continue
                i, f = key[1:].split(".", 1)
                for (o, t) in vals:
                    if o[0] == "P":
                        k = (int(i), f, o[1], o[2])
                        s.stores.add(k + (self.store_cond.get(k), t if t in IMMUTABLE_TYPES else None))
                    elif o[0] == "F":
                        # a fresh object stored in the parameter: export what *it* captures (one level)
                        for (st_, ff), vs in list(self.res.ffields.items()):
                            if st_ == o[1]:
                                for (o2, t2) in vs:
                                    if o2[0] == "P":
                                        s.stores.add((int(i), f + "." + ff, o2[1], o2[2], self.root_cond(o2[1], ex),
                                                      t2 if t2 in IMMUTABLE_TYPES else None))
        self.p.raw[self.q] = self.res
        self.p.unresolved[self.q] = self.unresolved
        self.p.call_edges[self.q] = self.edges

    def export_return(self, vals, env):
        s = self.p.summ[self.q]
        for (o, t) in vals:
            if o[0] == "P":
                s.ret_alias.add((o[1], o[2], self.root_cond(o[1], env)))
                if t:
                    s.ret_types.add(t)
            elif o[0] == "F":
                if t and t not in ("num",):
                    s.ret_types.add(t)
                self._export_fields(o[1], "", s, 0, set(), env)

    def _export_fields(self, site, prefix, s, depth, seen, env):
        if depth > 2 or site in seen:
            return
        seen = seen | {site}
        for (st, f), vals in list(self.res.ffields.items()):
            if st != site:
                continue
            fp = f if not prefix else prefix + "." + f
            for (o, t) in vals:
                if o[0] == "P":
                    s.ret_fields.add((fp, o[1], o[2], self.root_cond(o[1], env), t if t in IMMUTABLE_TYPES else None))
                elif o[0] == "F":
                    self._export_fields(o[1], fp, s, depth + 1, seen, env)


def base_t(t):
    """dict<Fraction> -> dict"""
    return t[: t.index("<")] if isinstance(t, str) and "<" in t else t


def dict_copy(env):
    return {k: set(v) for k, v in env.items()}


def join_env(a, b):
    if a is None:
        return b
    if b is None:
        return a
    out = {}
    for k in set(a) | set(b):
        out[k] = set(a.get(k, set())) | set(b.get(k, set()))
    return out


def env_eq(a, b):
    if a is None or b is None:
        return a is b
    return a.keys() == b.keys() and all(a[k] == b[k] for k in a)
