"""Decision-table extraction: interpret the branching structure of a function
body under one valuation of named predicates and collect the actions taken.

The *handler* supplies the semantics of the leaves:
    handler.test(node)   -> bool          (truth of an atomic condition; raise Unrecognised if unknown)
    handler.stmt(node)   -> None          (record the effect of a simple statement)
    handler.compound(st) -> signal        (loops / try / with: optional)
Signals: 'fall', 'break', 'continue', 'return', 'raise'.
"""
import ast

from .model import AnalysisError, norm


class Unrecognised(AnalysisError):
    pass


def expand_quantifier(test):
    """any(P(x) for x in (a, b, c)) -> P(a) or P(b) or P(c); all(...) -> and.  None if not of that form."""
    if isinstance(test, ast.Call) and isinstance(test.func, ast.Name) and test.func.id in ("any", "all") and len(test.args) == 1 and not test.keywords:
        g = test.args[0]
        if isinstance(g, (ast.GeneratorExp, ast.ListComp)) and len(g.generators) == 1 and not g.generators[0].ifs \
                and isinstance(g.generators[0].target, ast.Name) and isinstance(g.generators[0].iter, (ast.Tuple, ast.List)) and g.generators[0].iter.elts:
            from .normalise import Subst
            var = g.generators[0].target.id
            vals = [Subst({var: e}).visit(__import__("snt_static.normalise", fromlist=["clone"]).clone(g.elt)) for e in g.generators[0].iter.elts]
            return ast.BoolOp(op=ast.Or() if test.func.id == "any" else ast.And(), values=vals)
    return None


def truth(test, h):
    if isinstance(test, ast.BoolOp):
        if isinstance(test.op, ast.And):
            for v in test.values:
                if not truth(v, h):
                    return False
            return True
        for v in test.values:
            if truth(v, h):
                return True
        return False
    if isinstance(test, ast.UnaryOp) and isinstance(test.op, ast.Not):
        return not truth(test.operand, h)
    if isinstance(test, ast.Constant):
        return bool(test.value)
    if isinstance(test, ast.Name) and test.id in getattr(h, "bools", {}):
        return h.bools[test.id]
    ex = expand_quantifier(test)
    if ex is not None:
        return truth(ex, h)
    r = h.test(test)
    if r is None:
        raise Unrecognised(f"condition not interpretable: {norm(test)}")
    return r


def run_block(stmts, h):
    for st in stmts:
        if isinstance(st, ast.If):
            sig = run_block(st.body if truth(st.test, h) else st.orelse, h)
            if sig != "fall":
                return sig
        elif isinstance(st, ast.Return):
            h.stmt(st)
            return "return"
        elif isinstance(st, ast.Raise):
            h.stmt(st)
            return "raise"
        elif isinstance(st, ast.Break):
            return "break"
        elif isinstance(st, ast.Continue):
            return "continue"
        elif isinstance(st, ast.Pass):
            continue
        elif isinstance(st, (ast.Expr, ast.Assign, ast.AugAssign, ast.AnnAssign, ast.Delete, ast.Assert)):
            if isinstance(st, ast.Expr) and isinstance(st.value, ast.Constant):
                continue  # docstring
            # a local that names a condition (`is_atom = isinstance(right, tokens.atom)`): remember its truth under this valuation
            if isinstance(st, ast.Assign) and len(st.targets) == 1 and isinstance(st.targets[0], ast.Name) and (
                    isinstance(st.value, (ast.BoolOp, ast.Compare)) or (isinstance(st.value, ast.UnaryOp) and isinstance(st.value.op, ast.Not))
                    or (isinstance(st.value, ast.Call) and isinstance(st.value.func, ast.Name) and st.value.func.id == "isinstance")):
                try:
                    v = truth(st.value, h)
                except Unrecognised:
                    v = None
                if v is not None:
                    if not hasattr(h, "bools"):
                        h.bools = {}
                    h.bools[st.targets[0].id] = v
                    continue
            h.stmt(st)
        elif isinstance(st, (ast.While, ast.For, ast.Try, ast.With)):
            sig = h.compound(st)
            if sig != "fall":
                return sig
        elif isinstance(st, (ast.FunctionDef, ast.ClassDef, ast.Import, ast.ImportFrom, ast.Global, ast.Nonlocal)):
            continue
        else:
            raise Unrecognised(f"statement kind {type(st).__name__}")
    return "fall"


class Handler:
    """Base handler: records normalised statements as actions."""

    def __init__(self):
        self.actions = []

    def test(self, node):
        return None

    def stmt(self, node):
        self.actions.append(norm(node))

    def compound(self, st):
        raise Unrecognised(f"compound statement {type(st).__name__} in decision table")


def is_call_to(node, attr):
    """node is Call of <something>.attr(...) or attr(...)"""
    if not isinstance(node, ast.Call):
        return False
    f = node.func
    return (isinstance(f, ast.Attribute) and f.attr == attr) or (isinstance(f, ast.Name) and f.id == attr)


def isinstance_args(node):
    """isinstance(x, T) -> (x_node, [type nodes]) else None"""
    if isinstance(node, ast.Call) and isinstance(node.func, ast.Name) and node.func.id == "isinstance" \
            and len(node.args) == 2:
        t = node.args[1]
        types = list(t.elts) if isinstance(t, (ast.Tuple, ast.List)) else [t]
        return node.args[0], types
    return None
