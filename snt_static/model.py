"""Repository model: parsed modules, import resolution, classes, MRO, digests.

Nothing of the analysed repository is imported or executed; everything is
`ast` over the files of the working tree (SNT_REPO, default /repo).
"""
import ast
import hashlib
import os
import warnings
from pathlib import Path

warnings.filterwarnings("ignore", category=SyntaxWarning)   # the repository uses non-raw regex strings

PKG = "src/scinumtools"


class AnalysisError(Exception):
    """The construct a rule needs cannot be found or interpreted."""


_INV = None


def _inventory():
    global _INV
    if _INV is None:
        import json
        p = Path(__file__).resolve().parent / "inventory.json"
        _INV = json.loads(p.read_text())["files"] if p.is_file() else {}
    return _INV


class Module:
    def __init__(self, repo, relpath, source):
        self.repo = repo
        self.relpath = relpath          # e.g. src/scinumtools/units/quantity.py
        self.source = source
        self.digest = hashlib.sha256(source.encode()).hexdigest()[:16]
        self.tree = ast.parse(source, filename=relpath)
        for node in ast.walk(self.tree):
            for child in ast.iter_child_nodes(node):
                child._parent = node
        self.normalised, self.flagged = [], set()
        if os.environ.get("SNT_NO_NORMALISE") != "1":
            from .normalise import canonicalise, split_parallel_assignments
            if canonicalise(self.tree):
                for node in ast.walk(self.tree):
                    for child in ast.iter_child_nodes(node):
                        child._parent = node
            split_parallel_assignments(self.tree)
        inv = _inventory().get(relpath)
        if inv is not None and os.environ.get("SNT_NO_NORMALISE") != "1":
            from .normalise import normalise_module
            n = normalise_module(self.tree, inv)
            self.normalised, self.flagged = n.log, n.flagged
            if n.log:
                canonicalise(self.tree)
                # line numbers are used as textual order by several rules: make them consistent again after inlining
                try:
                    self.tree = ast.parse(ast.unparse(self.tree), filename=relpath)
                except Exception:
                    pass
            for node in ast.walk(self.tree):
                for child in ast.iter_child_nodes(node):
                    child._parent = node
        self.classes = {}
        self.functions = {}
        self.assigns = {}               # top-level NAME -> value node (last one)
        self.imports = []               # (kind, module_rel, name, asname, level)
        for st in self.tree.body:
            self._scan_top(st)

    def _scan_top(self, st):
        if isinstance(st, ast.ClassDef):
            self.classes[st.name] = st
        elif isinstance(st, (ast.FunctionDef, ast.AsyncFunctionDef)):
            self.functions[st.name] = st
        elif isinstance(st, ast.Assign):
            for t in st.targets:
                if isinstance(t, ast.Name):
                    self.assigns[t.id] = st.value
        elif isinstance(st, ast.AnnAssign) and isinstance(st.target, ast.Name) and st.value is not None:
            self.assigns[st.target.id] = st.value
        elif isinstance(st, ast.ImportFrom):
            for a in st.names:
                self.imports.append(("from", st.module or "", a.name, a.asname or a.name, st.level))
        elif isinstance(st, ast.Import):
            for a in st.names:
                self.imports.append(("import", a.name, None, a.asname or a.name.split(".")[0], 0))
        elif isinstance(st, (ast.If, ast.Try)):
            for sub in ast.iter_child_nodes(st):
                if isinstance(sub, ast.stmt):
                    self._scan_top(sub)

    # dotted package of this module, e.g. scinumtools.units.quantity
    @property
    def dotted(self):
        p = self.relpath[len("src/"):-3].replace("/", ".")
        if p.endswith(".__init__"):
            p = p[:-9]
        return p

    @property
    def is_package(self):
        return self.relpath.endswith("__init__.py")


class Repo:
    def __init__(self, root=None):
        self.root = Path(root or os.environ.get("SNT_REPO", "/repo")).resolve()
        self._modules = {}
        self.unparsable = {}
        self.consulted = {}
        self._all = None

    # ---- files -----------------------------------------------------------
    def read_text(self, relpath):
        p = self.root / relpath
        if not p.is_file():
            raise AnalysisError(f"anchor file missing: {relpath}")
        txt = p.read_text(encoding="utf-8", errors="replace")
        self.consulted[relpath] = hashlib.sha256(txt.encode()).hexdigest()[:16]
        return txt

    def module(self, relpath):
        if relpath in self._modules:
            m = self._modules[relpath]
            self.consulted[relpath] = m.digest
            return m
        if relpath in self.unparsable:
            raise AnalysisError(f"unparsable: {relpath}: {self.unparsable[relpath]}")
        src = self.read_text(relpath)
        try:
            m = Module(self, relpath, src)
        except SyntaxError as e:
            self.unparsable[relpath] = f"SyntaxError line {e.lineno}"
            raise AnalysisError(f"unparsable: {relpath}: SyntaxError line {e.lineno}")
        self._modules[relpath] = m
        return m

    def all_py(self, sub=PKG):
        base = self.root / sub
        out = []
        for p in sorted(base.rglob("*.py")):
            out.append(str(p.relative_to(self.root)))
        return out

    def all_modules(self, sub=PKG, tolerate_unparsable=True):
        mods = []
        for rel in self.all_py(sub):
            try:
                mods.append(self.module(rel))
            except AnalysisError:
                if not tolerate_unparsable:
                    raise
        return mods

    # ---- lookup ----------------------------------------------------------
    def dotted_to_rel(self, dotted):
        base = "src/" + dotted.replace(".", "/")
        for cand in (base + ".py", base + "/__init__.py"):
            if (self.root / cand).is_file():
                return cand
        return None

    def _import_target(self, mod, modname, level):
        """Resolve the module named in `from <level dots><modname> import` -> relpath."""
        if level == 0:
            if not modname.startswith("scinumtools"):
                return None
            return self.dotted_to_rel(modname)
        parts = mod.dotted.split(".")
        if not mod.is_package:
            parts = parts[:-1]
        if level > 1:
            parts = parts[: len(parts) - (level - 1)]
        if modname:
            parts = parts + modname.split(".")
        return self.dotted_to_rel(".".join(parts))

    def resolve(self, mod, name, _seen=None):
        """Resolve a bare name used in `mod` to (Module, kind, node).

        kind in {'class','function','assign'}; follows from-imports and
        star-imports through package __init__ files. Returns None when the
        name is external (numpy, re, ...) or unknown.
        """
        _seen = _seen or set()
        key = (mod.relpath, name)
        if key in _seen:
            return None
        _seen.add(key)
        if name in mod.classes:
            return (mod, "class", mod.classes[name])
        if name in mod.functions:
            return (mod, "function", mod.functions[name])
        if name in mod.assigns:
            return (mod, "assign", mod.assigns[name])
        for kind, modname, orig, asname, level in mod.imports:
            if kind != "from":
                continue
            if asname == name and orig != "*":
                rel = self._import_target(mod, modname, level)
                if rel is None:
                    return None
                try:
                    tm = self.module(rel)
                except AnalysisError:
                    return None
                r = self.resolve(tm, orig, _seen)
                if r:
                    return r
                # `from . import Units` where Units lives in the package __init__
                sub = self._import_target(mod, (modname + "." if modname else "") + orig, level)
                if sub:
                    try:
                        return (self.module(sub), "module", None)
                    except AnalysisError:
                        return None
                return None
        for kind, modname, orig, asname, level in mod.imports:
            if kind == "from" and orig == "*":
                rel = self._import_target(mod, modname, level)
                if rel is None:
                    continue
                try:
                    tm = self.module(rel)
                except AnalysisError:
                    continue
                r = self.resolve(tm, name, _seen)
                if r:
                    return r
        return None

    def cls(self, relpath, name):
        m = self.module(relpath)
        if name not in m.classes:
            raise AnalysisError(f"anchor class missing: {relpath}:{name}")
        return m.classes[name]

    def func(self, relpath, qual):
        m = self.module(relpath)
        if "." in qual:
            cname, fname = qual.split(".", 1)
            c = self.cls(relpath, cname)
            for st in c.body:
                if isinstance(st, (ast.FunctionDef, ast.AsyncFunctionDef)) and st.name == fname:
                    return st
            raise AnalysisError(f"anchor method missing: {relpath}:{qual}")
        if qual not in m.functions:
            raise AnalysisError(f"anchor function missing: {relpath}:{qual}")
        return m.functions[qual]

    def has_func(self, relpath, qual):
        try:
            self.func(relpath, qual)
            return True
        except AnalysisError:
            return False

    # ---- class hierarchy -------------------------------------------------
    def bases(self, mod, cdef):
        out = []
        for b in cdef.bases:
            nm = b.id if isinstance(b, ast.Name) else (b.attr if isinstance(b, ast.Attribute) else None)
            if nm is None:
                continue
            r = self.resolve(mod, nm)
            if r and r[1] == "class":
                out.append((r[0], r[2]))
        return out

    def mro(self, mod, cdef):
        """Linearised ancestors (depth-first, left-to-right, duplicates removed
        keeping the last occurrence — equals C3 for the hierarchies in this repo)."""
        order = []

        def walk(m, c):
            order.append((m, c))
            for bm, bc in self.bases(m, c):
                walk(bm, bc)
        walk(mod, cdef)
        seen, out = set(), []
        for m, c in reversed(order):
            k = (m.relpath, c.name)
            if k not in seen:
                seen.add(k)
                out.append((m, c))
        out.reverse()
        # keep subclass-before-base order: simple DFS preorder with last-dup removal
        return out

    def class_attr(self, mod, cdef, attr):
        """First class-level assignment `attr = <expr>` along the MRO -> (Module, value node)."""
        for m, c in self.mro(mod, cdef):
            for st in c.body:
                if isinstance(st, ast.Assign):
                    for t in st.targets:
                        if isinstance(t, ast.Name) and t.id == attr:
                            return (m, st.value)
                elif isinstance(st, ast.AnnAssign) and isinstance(st.target, ast.Name) \
                        and st.target.id == attr and st.value is not None:
                    return (m, st.value)
        return None

    def method(self, mod, cdef, name):
        """First definition of method `name` along the MRO -> (Module, ClassDef, FunctionDef)."""
        for m, c in self.mro(mod, cdef):
            for st in c.body:
                if isinstance(st, (ast.FunctionDef, ast.AsyncFunctionDef)) and st.name == name:
                    return (m, c, st)
        return None

    def is_subclass(self, mod, cdef, base_name):
        return any(c.name == base_name for _, c in self.mro(mod, cdef))


# ---- small AST helpers --------------------------------------------------

def norm(node):
    """Whitespace-normalised source of a node (stable instance key)."""
    try:
        return " ".join(ast.unparse(node).split())
    except Exception:
        return "<?>"


def methods(cdef):
    return {st.name: st for st in cdef.body if isinstance(st, (ast.FunctionDef, ast.AsyncFunctionDef))}


def qualname(fn):
    p = getattr(fn, "_parent", None)
    parts = [fn.name]
    while p is not None:
        if isinstance(p, (ast.ClassDef, ast.FunctionDef, ast.AsyncFunctionDef)):
            parts.append(p.name)
        p = getattr(p, "_parent", None)
    return ".".join(reversed(parts))


def enclosing_function(node):
    p = getattr(node, "_parent", None)
    while p is not None:
        if isinstance(p, (ast.FunctionDef, ast.AsyncFunctionDef)):
            return p
        p = getattr(p, "_parent", None)
    return None


def walk_no_nested(node):
    """ast.walk that does not descend into nested function/class definitions."""
    todo = list(ast.iter_child_nodes(node))
    while todo:
        n = todo.pop()
        yield n
        if isinstance(n, (ast.FunctionDef, ast.AsyncFunctionDef, ast.ClassDef, ast.Lambda)):
            continue
        todo.extend(ast.iter_child_nodes(n))


def dotted_name(node):
    """a.b.c -> 'a.b.c' for Name/Attribute chains, else None."""
    parts = []
    while isinstance(node, ast.Attribute):
        parts.append(node.attr)
        node = node.value
    if isinstance(node, ast.Name):
        parts.append(node.id)
        return ".".join(reversed(parts))
    return None


def cnorm(node):
    """norm() with the bound variables of comprehensions and lambdas renamed canonically (_c0, _c1, ...), so that
    `[f(p) for p in xs]` and `[f(col) for col in xs]` have the same text."""
    from .normalise import clone
    tree = clone(node)
    counter = [0]

    def rename_in(n, mapping):
        for x in ast.walk(n):
            if isinstance(x, ast.Name) and x.id in mapping:
                x.id = mapping[x.id]
            elif isinstance(x, ast.arg) and x.arg in mapping:
                x.arg = mapping[x.arg]
    for n in list(ast.walk(tree)):
        if isinstance(n, (ast.ListComp, ast.SetComp, ast.GeneratorExp, ast.DictComp)):
            mapping = {}
            for g in n.generators:
                for t in ast.walk(g.target):
                    if isinstance(t, ast.Name) and t.id not in mapping:
                        mapping[t.id] = f"_c{counter[0]}"
                        counter[0] += 1
            rename_in(n, mapping)
        elif isinstance(n, ast.Lambda):
            mapping = {}
            for a in n.args.args:
                mapping[a.arg] = f"_c{counter[0]}"
                counter[0] += 1
            rename_in(n, mapping)
    return norm(tree)
