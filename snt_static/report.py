"""Rule context, verdict collection, evidence and known-findings handling."""
import hashlib
import json
import os
import time
import traceback
from pathlib import Path

from .model import AnalysisError, Repo

VERIF = Path(__file__).resolve().parent.parent

HOLDS, VIOLATED, UNRECOGNISED = "HOLDS", "VIOLATED", "UNRECOGNISED"


class Instance:
    __slots__ = ("rule", "file", "qual", "construct", "verdict", "detail", "expected", "trivial", "site")

    def __init__(self, rule, file, qual, construct, verdict, detail=None, expected=None, trivial=False):
        self.rule, self.file, self.qual, self.construct = rule, file, qual, construct
        self.verdict, self.detail, self.expected, self.trivial = verdict, detail, expected, trivial
        self.site = None
        if os.environ.get("SNT_SITES"):
            import sys
            f = sys._getframe(1)
            while f is not None and f.f_code.co_filename.endswith("report.py"):
                f = f.f_back
            if f is not None:
                self.site = f"{os.path.basename(f.f_code.co_filename)}:{f.f_lineno}"

    @property
    def key(self):
        return f"{self.rule}|{self.file}|{self.qual}|{self.construct}"

    def as_dict(self):
        d = {"key": self.key, "verdict": self.verdict}
        if self.detail is not None:
            d["found"] = self.detail
        if self.expected is not None:
            d["expected"] = self.expected
        return d


class Ctx:
    def __init__(self, prop, repo, tier):
        self.prop, self.repo, self.tier = prop, repo, tier
        self.instances = []
        self.info = {}
        self.rule_texts = {}
        self.current_rule = None
        self.errors = []          # machinery errors (tracebacks)
        self.functions_analysed = set()
        self.call_sites = 0

    # ---- verdicts --------------------------------------------------------
    def _add(self, verdict, rule, file, qual, construct, detail, expected, trivial=False):
        self.instances.append(Instance(rule or self.current_rule, file, qual, construct, verdict,
                                       detail, expected, trivial))

    def holds(self, file, qual, construct, detail=None, rule=None, trivial=False):
        self._add(HOLDS, rule, file, qual, construct, detail, None, trivial)

    def violated(self, file, qual, construct, detail=None, expected=None, rule=None):
        self._add(VIOLATED, rule, file, qual, construct, detail, expected)

    def unrecognised(self, file, qual, construct, why, rule=None):
        self._add(UNRECOGNISED, rule, file, qual, construct, why, None)

    def check(self, cond, file, qual, construct, detail=None, expected=None, rule=None):
        if cond:
            self.holds(file, qual, construct, detail, rule)
        else:
            self.violated(file, qual, construct, detail, expected, rule)
        return cond

    def form(self, cond, file, qual, construct, detail=None, rule=None, expected=None):
        """Idiom recognition: the construct either has the recognised shape (HOLDS) or the
        abstraction cannot interpret it (UNRECOGNISED, exit 2) - never a violation, because a
        different spelling need not be a different behaviour."""
        if cond:
            self.holds(file, qual, construct, detail, rule)
        else:
            self.unrecognised(file, qual, construct, f"shape not recognised: {detail!r}"[:300], rule)
        return cond

    def floor(self, what, found, minimum, file="-", rule=None):
        """Fail closed when fewer instances than confirmed by hand are found."""
        if found < minimum:
            self.unrecognised(file, "-", f"floor:{what}",
                              f"only {found} instances of {what} found, floor is {minimum}", rule)

    def fn(self, relpath, qual):
        self.functions_analysed.add(f"{relpath}::{qual}")
        return self.repo.func(relpath, qual)


def load_known():
    p = VERIF / "known_findings.json"
    if not p.is_file():
        return []
    return json.loads(p.read_text())["findings"]


def evaluate(prop, rules, tier, root=None, explain=False):
    """Run every rule of a property on the tree at `root` (default: SNT_REPO or /repo)."""
    repo = Repo(root)
    ctx = Ctx(prop, repo, tier)
    for rid, text, fn in rules:
        ctx.current_rule = rid
        ctx.rule_texts[rid] = text
        n0 = len(ctx.instances)
        try:
            fn(ctx)
        except AnalysisError as e:
            ctx.unrecognised("-", "-", "rule-aborted", str(e), rid)
        except Exception as e:  # machinery bug: never a violation
            tb = traceback.format_exc()
            ctx.errors.append(f"{rid}: {type(e).__name__}: {e}")
            ctx.unrecognised("-", "-", "rule-crashed", f"{type(e).__name__}: {e}", rid)
            if explain or os.environ.get("SNT_DEBUG"):
                print(tb)
        if len(ctx.instances) == n0:
            ctx.unrecognised("-", "-", "no-instances", "rule produced no instance (vacuous)", rid)
    norm_log = {rel: m.normalised for rel, m in repo._modules.items() if m.normalised}
    if norm_log:
        ctx.info["normalised"] = norm_log
    return ctx


def selftest(prop, rules, baseline_keys):
    """Thorough tier: both-ways test of the rule set on scratch copies of the current tree.
    Seeded changes (seeded/<prop>-*) must make some rule report a violation that the unchanged tree does
    not have; behaviour-preserving twins (twins/<prop>-*) must not. Recorded in the evidence; it never
    changes the verdict on the property."""
    import shutil
    import subprocess
    import tempfile
    out = {"seeded": [], "twins": []}
    src_root = Path(os.environ.get("SNT_REPO", "/repo"))
    for kind, folder in (("seeded", VERIF / "seeded"), ("twins", VERIF / "twins")):
        if not folder.is_dir():
            continue
        for d in sorted(folder.iterdir()):
            if not d.name.startswith(prop + "-") or not (d / "patch.diff").is_file():
                continue
            tmp = tempfile.mkdtemp(prefix="snt_selftest_")
            try:
                for sub in ("src", "docs"):
                    if (src_root / sub).is_dir():
                        shutil.copytree(src_root / sub, Path(tmp) / sub)
                r = subprocess.run(["patch", "-p1", "-s", "-d", tmp, "-i", str(d / "patch.diff")], capture_output=True, text=True)
                if r.returncode != 0:
                    out[kind].append({"variant": d.name, "status": "skipped: patch does not apply to the current tree"})
                    continue
                c = evaluate(prop, rules, "quick", root=tmp)
                newv = sorted({i.key for i in c.instances if i.verdict == VIOLATED} - baseline_keys)
                unrec = [i.key for i in c.instances if i.verdict == UNRECOGNISED]
                if kind == "seeded":
                    status = "fired" if newv else ("unrecognised" if unrec else "MISSED")
                else:
                    status = "silent" if not newv and not unrec else ("unrecognised" if not newv else "FALSE-ALARM")
                out[kind].append({"variant": d.name, "status": status, "violations": newv[:3], "unrecognised": unrec[:3]})
            finally:
                shutil.rmtree(tmp, ignore_errors=True)
    return out


def _sensitivity(prop, ctx, baseline):
    """Thorough tier: first-order syntactic mutants of the analysed functions, evaluated statically (never a verdict)."""
    try:
        from .mutate import sensitivity
        return sensitivity(prop, ctx.functions_analysed, str(ctx.repo.root), baseline, per_function=10, total=240)
    except Exception as e:      # instrument only
        return {"error": f"{type(e).__name__}: {e}"[:200]}


def _robustness(prop, ctx, baseline):
    """Thorough tier: behaviour-preserving rewrites of the analysed functions, evaluated statically (never a verdict)."""
    try:
        from .equiv import robustness
        r = robustness(prop, ctx.functions_analysed, str(ctx.repo.root), baseline, total=360)
        r["unrecognised_list"] = r.get("unrecognised_list", [])[:40]
        return r
    except Exception as e:      # instrument only
        return {"error": f"{type(e).__name__}: {e}"[:200]}


def run_property(prop, rules, doc, tier, explain=False, replay_key=None):
    """rules: list of (rule_id, text, function(ctx)). Returns exit code."""
    t0 = time.time()
    ctx = evaluate(prop, rules, tier, explain=explain)
    repo = ctx.repo

    known = [k for k in load_known() if k["property"] == prop]
    known_keys = {k["key"]: k for k in known if k.get("status") == "known"}

    viol = [i for i in ctx.instances if i.verdict == VIOLATED]
    unrec = [i for i in ctx.instances if i.verdict == UNRECOGNISED]
    new_viol, known_hit = [], []
    seen = set()
    for i in viol:
        if i.key in seen:
            continue
        seen.add(i.key)
        if i.key in known_keys:
            known_hit.append(i)
        else:
            new_viol.append(i)

    if replay_key is not None:
        sel = [i for i in ctx.instances if i.key == replay_key]
        print(f"replay {prop}: {len(sel)} instance(s) with key {replay_key}")
        for i in sel:
            print(json.dumps(i.as_dict(), indent=1, default=str))
            print("rule:", ctx.rule_texts.get(i.rule, ""))
        bad = [i for i in sel if i.verdict == VIOLATED]
        return 1 if bad else (2 if not sel else 0)

    lines = []
    for i in known_hit:
        lines.append(f"KNOWN-FINDING: property={prop} {i.key} :: {known_keys[i.key]['what_fails']}")
    rdir = VERIF / "replays" / prop
    for i in new_viol:
        rdir.mkdir(parents=True, exist_ok=True)
        h = hashlib.sha1(i.key.encode()).hexdigest()[:12]
        rp = rdir / f"{h}.json"
        rp.write_text(json.dumps({
            "property": prop, "rule": i.rule, "rule_text": ctx.rule_texts.get(i.rule, ""),
            "key": i.key, "file": i.file, "construct": f"{i.qual} :: {i.construct}",
            "found": i.detail, "expected": i.expected,
            "replay_cmd": f"./vcheck {prop} --replay {rp}",
        }, indent=1, default=str))
        lines.append(f"VIOLATION property={prop} replay={rp}")
        lines.append(f"  rule {i.rule} at {i.file} {i.qual}: {i.construct}")
        if i.detail is not None:
            lines.append(f"  found:    {json.dumps(i.detail, default=str)[:600]}")
        if i.expected is not None:
            lines.append(f"  expected: {json.dumps(i.expected, default=str)[:600]}")
    for i in unrec:
        lines.append(f"ANALYSIS-ERROR property={prop} rule={i.rule} at {i.file} {i.qual}: {i.construct}: {i.detail}")

    # ---- evidence --------------------------------------------------------
    per_rule = {}
    for i in ctx.instances:
        r = per_rule.setdefault(i.rule, {"HOLDS": 0, "VIOLATED": 0, "UNRECOGNISED": 0})
        r[i.verdict] += 1
    distinct = {i.key for i in ctx.instances if i.verdict != UNRECOGNISED and not i.trivial}
    samples = []
    seen_rules = set()
    for i in ctx.instances:
        if i.rule not in seen_rules or i.verdict != HOLDS:
            seen_rules.add(i.rule)
            samples.append(i.as_dict())
    samples = samples[:60]
    evidence = {
        "property_id": prop,
        "tier": tier,
        "seed": 0,
        "level": "other",
        "coverage": {
            "explanation": doc.strip(),
            "evaluations": len(ctx.instances),
            "distinct_nontrivial": len(distinct),
            "rule": "one case = one rule instance: a (rule, file, construct) triple whose abstraction "
                    "(literal table row, decision-table cell, normal form, effect summary, path) was extracted "
                    "from the current source and compared with the oracle; distinct = distinct instance keys; "
                    "non-trivial = the construct was recognised and carries a real obligation "
                    "(unrecognised and informational instances are not counted)",
            "samples": samples,
            "rules": {rid: {"text": ctx.rule_texts[rid], **per_rule.get(rid, {})} for rid in ctx.rule_texts},
            "functions_analysed": sorted(ctx.functions_analysed),
            "n_functions_analysed": len(ctx.functions_analysed),
            "consulted": dict(sorted(repo.consulted.items())),
            "unparsable_files": repo.unparsable,
            "unrecognised": [i.as_dict() for i in unrec],
            "known_findings_matched": [i.key for i in known_hit],
            "exhaustive": False,
            **ctx.info,
            **({"selftest": selftest(prop, rules, {i.key for i in viol})} if tier == "thorough" and replay_key is None else {}),
            **({"mutation_sensitivity": _sensitivity(prop, ctx, {i.key for i in viol})} if tier == "thorough" and replay_key is None else {}),
            **({"rewrite_robustness": _robustness(prop, ctx, {i.key for i in viol})} if tier == "thorough" and replay_key is None else {}),
        },
        "assumptions": [
            "verdicts are about the structural clauses listed in DESIGN.md for this property, not the runtime behaviour as a whole",
            "oracle tables (DESIGN.md appendix A) are hand-written from the property statement, the repository documentation or public standards",
            "the Python semantics of the statement kinds the abstractions interpret (if/elif/else, assignment, return, raise, for/while, try) are as documented",
        ],
        "wall_s": round(time.time() - t0, 3),
        "violations": len(new_viol),
    }
    # a run on a scratch copy (development: seeds, twins, rewrites) keeps its evidence next to that copy
    scratch = os.environ.get("SNT_REPO") and Path(os.environ["SNT_REPO"]).resolve() != Path("/repo")
    edir = (Path(os.environ["SNT_REPO"]) / ".snt_evidence") if scratch else VERIF / "evidence"
    edir.mkdir(exist_ok=True)
    (edir / f"{prop}.json").write_text(json.dumps(evidence, indent=1, default=str))

    for ln in lines:
        print(ln)
    nh = sum(1 for i in ctx.instances if i.verdict == HOLDS)
    print(f"{prop} [{tier}] rules={len(rules)} instances={len(ctx.instances)} holds={nh} "
          f"violated={len(new_viol)} known={len(known_hit)} unrecognised={len(unrec)} "
          f"wall={evidence['wall_s']}s")
    if explain:
        for i in ctx.instances:
            print(" ", i.verdict, i.key, "" if i.detail is None else json.dumps(i.detail, default=str)[:200])
    if new_viol:
        return 1
    if unrec:
        return 2
    return 0
