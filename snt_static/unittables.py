"""Literal unit tables of src/scinumtools/units/settings.py (never imported, only parsed)."""
import ast

from .literal import Evaluator
from .model import AnalysisError, dotted_name

SETTINGS = "src/scinumtools/units/settings.py"
UNIT_TYPES_PY = "src/scinumtools/units/unit_types.py"


def _table(repo, name):
    mod = repo.module(SETTINGS)
    node = mod.assigns.get(name)
    if node is None:
        raise AnalysisError(f"{name} not assigned in {SETTINGS}")
    if not (isinstance(node, ast.Call) and dotted_name(node.func) == "ParameterTable" and len(node.args) >= 2):
        raise AnalysisError(f"{name} is not ParameterTable(columns, {{...}})")
    ev = Evaluator(repo, mod)
    cols = ev.ev(node.args[0])
    rows = ev.ev(node.args[1])
    return cols, rows


def unit_standard(repo):
    return _table(repo, "UNIT_STANDARD")


def unit_prefixes(repo):
    return _table(repo, "UNIT_PREFIXES")


def module_const(repo, name):
    mod = repo.module(SETTINGS)
    node = mod.assigns.get(name)
    if node is None:
        raise AnalysisError(f"{name} not assigned in {SETTINGS}")
    return Evaluator(repo, mod).ev(node)
