#!/usr/bin/env python3
"""Show the normalised source of a function: shownorm.py <root> <relpath> <qualname>"""
import ast, sys
from pathlib import Path
sys.path.insert(0, str(Path(__file__).resolve().parent.parent))
from snt_static.model import Repo
r = Repo(sys.argv[1]); m = r.module(sys.argv[2])
print("\n".join("# " + l for l in m.normalised)); print("# flagged:", m.flagged)
if len(sys.argv) > 3:
    print(ast.unparse(r.func(sys.argv[2], sys.argv[3])))
