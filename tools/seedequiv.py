#!/usr/bin/env python3
"""Does a behaviour-preserving rewrite mask a seeded change?  For each seed: apply it on a scratch copy, rewrite each
function the seed touches with every first-order rewrite of snt_static/equiv.py and evaluate the seed's own property.
Outcomes: violation (still reported), unrecognised (exit 2), MASKED (silent: the normaliser or a rule hid the change).
With --twins the directories are behaviour-preserving twins: a rewrite of a twin is still behaviour-preserving, so the
outcomes are silent / unrecognised, and FALSE-VIOLATION is a defect of the rule set.
usage: seedequiv.py <seed_dir>... [--per=N] [--twins]"""
import ast, json, os, shutil, subprocess, sys, tempfile
from concurrent.futures import ProcessPoolExecutor
from pathlib import Path
V = Path(__file__).resolve().parent.parent
sys.path.insert(0, str(V))
from snt_static.equiv import equivalents_of_function
from snt_static.mutate import _functions
per = next((int(a.split("=")[1]) for a in sys.argv if a.startswith("--per=")), None)


def touched(tmp):
    out = []
    for p in Path(tmp, "src").rglob("*.py"):
        rel = str(p.relative_to(tmp))
        q = Path("/repo") / rel
        new = p.read_text()
        old = q.read_text() if q.is_file() else ""
        if new == old:
            continue
        try:
            fn_new = _functions(ast.parse(new))
            fn_old = _functions(ast.parse(old)) if old else {}
        except SyntaxError:
            continue
        for name, f in fn_new.items():
            if name not in fn_old or ast.dump(f) != ast.dump(fn_old[name]):
                # innermost only: skip a function whose nested function is the one that changed
                out.append((rel, name))
    return out


def evaluate(args):
    seed, prop, tmp, rel, qual, desc, src = args
    from importlib import import_module
    from snt_static.report import UNRECOGNISED, VIOLATED, evaluate as ev
    t2 = tempfile.mkdtemp(prefix="se_")
    try:
        for sub in ("src", "docs"):
            shutil.copytree(Path(tmp) / sub, Path(t2) / sub, copy_function=os.link)
        tp = Path(t2) / rel
        tp.unlink()
        tp.write_text(src)
        ctx = ev(prop, import_module(f"snt_static.rules.{prop}").RULES, "quick", root=t2)
        base = BASE[prop]
        v = [i for i in ctx.instances if i.verdict == VIOLATED and i.key not in base]
        u = [i for i in ctx.instances if i.verdict == UNRECOGNISED]
        if TWINS:
            return seed, rel, qual, desc, ("FALSE-VIOLATION " + str([(i.key, getattr(i, "site", None)) for i in v][:1]) if v else ("unrecognised" if u else "silent"))
        return seed, rel, qual, desc, ("violation" if v else ("unrecognised" if u else "MASKED"))
    except Exception as e:
        return seed, rel, qual, desc, f"error {type(e).__name__}: {e}"[:100]
    finally:
        shutil.rmtree(t2, ignore_errors=True)


BASE = {}
TWINS = "--twins" in sys.argv
os.environ.setdefault("SNT_SITES", "1")
if __name__ == "__main__":
    from importlib import import_module
    from snt_static.report import VIOLATED, evaluate as ev
    seeds = [a for a in sys.argv[1:] if not a.startswith("-")]
    tmps, work = [], []
    for d in seeds:
        meta = json.load(open(os.path.join(d, "meta.json")))
        prop = meta["property"]
        if prop not in BASE:
            c = ev(prop, import_module(f"snt_static.rules.{prop}").RULES, "quick", root="/repo")
            BASE[prop] = {i.key for i in c.instances if i.verdict == VIOLATED}
        tmp = tempfile.mkdtemp(prefix="seq_")
        tmps.append(tmp)
        for sub in ("src", "docs"):
            shutil.copytree(f"/repo/{sub}", f"{tmp}/{sub}")
        if subprocess.run(["patch", "-p1", "-s", "-d", tmp, "-i", os.path.abspath(os.path.join(d, "patch.diff"))], capture_output=True).returncode:
            print(d, "PATCH-FAIL")
            continue
        for rel, qual in touched(tmp):
            src = (Path(tmp) / rel).read_text()
            for desc, new in equivalents_of_function(src, qual, per):
                work.append((os.path.basename(d), prop, tmp, rel, qual, desc, new))
    tot = {}
    with ProcessPoolExecutor(14) as ex:
        for seed, rel, qual, desc, status in ex.map(evaluate, work, chunksize=2):
            tot[status.split()[0]] = tot.get(status.split()[0], 0) + 1
            if status not in ("violation", "silent"):
                print(f"{status}\t{seed}\t{rel}::{qual}\t{desc}")
    print("total", json.dumps(tot))
    for t in tmps:
        shutil.rmtree(t, ignore_errors=True)
