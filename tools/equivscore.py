#!/usr/bin/env python3
"""Robustness of a property's rule set against behaviour-preserving rewrites of the functions it analyses:
equivscore.py Cxx|all [per_function] [total]   (SNT_SITES=1 adds the rule-source line of each false violation)"""
import json, os, sys
from pathlib import Path
os.environ.setdefault("SNT_SITES", "1")
sys.path.insert(0, str(Path(__file__).resolve().parent.parent))
from importlib import import_module
from snt_static.report import VIOLATED, evaluate
from snt_static.equiv import robustness
props = [f"C{i:02d}" for i in range(1, 21)] if sys.argv[1] == "all" else sys.argv[1].split(",")
per = int(sys.argv[2]) if len(sys.argv) > 2 and sys.argv[2] != "-" else None
total = int(sys.argv[3]) if len(sys.argv) > 3 else None
root = os.environ.get("SNT_REPO", "/repo")
tot = {}
for prop in props:
    rules = import_module(f"snt_static.rules.{prop}").RULES
    ctx = evaluate(prop, rules, "quick", root=root)
    base = {i.key for i in ctx.instances if i.verdict == VIOLATED}
    res = robustness(prop, ctx.functions_analysed, root, base, per, total=total)
    print(prop, json.dumps({k: v for k, v in res.items() if k in ("rewrites", "silent", "unrecognised", "false-violation", "error")}))
    for r in res.get("false_violations", []):
        print("  FALSE-VIOLATION:", r["file"], r["function"], "|", r["rewrite"], "|", r["by"][:1])
    if "-v" in sys.argv:
        for r in res.get("unrecognised_list", []):
            print("  unrecognised:", r)
    for r in res.get("errors", []):
        print("  error:", r)
    for k in ("rewrites", "silent", "unrecognised", "false-violation", "error"):
        tot[k] = tot.get(k, 0) + res.get(k, 0)
    json.dump(res, open(f"/tmp/equiv_{prop}.json", "w"), indent=1)
print("total", json.dumps(tot))
