#!/usr/bin/env python3
"""Regenerate snt_static/inventory.json: the function inventory (parameters, ordered locals, module-level
names) of the reference tree on which the rule instances were confirmed.  Run deliberately, after the
rule sets were re-confirmed on a new reference; never at check time."""
import ast, json, subprocess, sys, warnings
from pathlib import Path
sys.path.insert(0, str(Path(__file__).resolve().parent.parent))
from snt_static.normalise import canonicalise, inventory_of_tree, split_parallel_assignments
warnings.filterwarnings("ignore", category=SyntaxWarning)
root = Path(sys.argv[1] if len(sys.argv) > 1 else "/repo")
inv = {"reference": subprocess.run(["git", "-C", str(root), "rev-parse", "HEAD"], capture_output=True, text=True).stdout.strip(), "files": {}}
for p in sorted((root / "src/scinumtools").rglob("*.py")):
    rel = str(p.relative_to(root))
    try:
        tree = ast.parse(p.read_text(encoding="utf-8", errors="replace"))
    except SyntaxError:
        continue
    canonicalise(tree)
    split_parallel_assignments(tree)
    inv["files"][rel] = inventory_of_tree(tree)
out = Path(__file__).resolve().parent.parent / "snt_static" / "inventory.json"
out.write_text(json.dumps(inv, indent=0, sort_keys=True))
print(out, len(inv["files"]), "files", sum(len(f["functions"]) for f in inv["files"].values()), "functions")
