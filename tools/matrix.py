#!/usr/bin/env python3
"""Markdown tables: which checks report a violation for each seeded change / stay silent for each twin.
usage: matrix.py seeded|twins"""
import json, os, shutil, subprocess, sys, tempfile
from concurrent.futures import ProcessPoolExecutor
from pathlib import Path
V = Path(__file__).resolve().parent.parent
props = [f"C{i:02d}" for i in range(1, 21)]

def one(d):
    tmp = tempfile.mkdtemp(prefix="mx_")
    try:
        for sub in ("src", "docs"):
            shutil.copytree(f"/repo/{sub}", f"{tmp}/{sub}")
        if subprocess.run(["patch", "-p1", "-s", "-d", tmp, "-i", str(d / "patch.diff")], capture_output=True).returncode:
            return d.name, None
        res = {}
        for p in props:
            r = subprocess.run([str(V / "vcheck"), p], capture_output=True, text=True, env=dict(os.environ, SNT_REPO=tmp))
            res[p] = r.returncode
        return d.name, res
    finally:
        shutil.rmtree(tmp, ignore_errors=True)

kind = sys.argv[1]
dirs = sorted((V / kind).iterdir())
with ProcessPoolExecutor(14) as ex:
    out = dict(ex.map(one, dirs))
json.dump(out, open(f"/tmp/matrix_{kind}.json", "w"))
if kind == "seeded":
    print("| seeded change | what it changes | own check | other checks that also report it |")
    print("|---|---|---|---|")
    for d in dirs:
        r = out[d.name]
        meta = json.load(open(d / "meta.json"))
        own = d.name.split("-")[0]
        txt = (meta.get("summary") or "").replace("|", "/").replace("\n", " ")[:150]
        others = " ".join(p for p in props if p != own and r[p] == 1)
        print(f"| {d.name} | {txt} | {'VIOLATION' if r[own] == 1 else ('unrecognised' if r[own] == 2 else 'MISSED')} | {others} |")
else:
    print("| twin | kind | result over all 20 checks |")
    print("|---|---|---|")
    for d in dirs:
        r = out[d.name]
        meta = json.load(open(d / "meta.json"))
        bad = " ".join(f"{p}:{'VIOLATION' if c == 1 else 'unrecognised'}" for p, c in r.items() if c)
        print(f"| {d.name} | {(meta.get('kind') or '').replace('|','/')[:70]} | {bad or 'silent'} |")
