#!/usr/bin/env python3
"""Run property checks against seeded changes on scratch copies.
usage: seedrun.py <seed_dir>... [--props C01,C02] [--all-props] [-v]
A seed_dir holds patch.diff and meta.json ({"property": ...})."""
import json, os, shutil, subprocess, sys, tempfile
VERIF = os.path.dirname(os.path.dirname(os.path.abspath(__file__)))
args = [a for a in sys.argv[1:] if not a.startswith("-")]
verbose = "-v" in sys.argv
props_opt = None
for a in sys.argv[1:]:
    if a.startswith("--props="):
        props_opt = a.split("=", 1)[1].split(",")
allp = "--all-props" in sys.argv
have = sorted(f[:-3] for f in os.listdir(os.path.join(VERIF, "snt_static/rules")) if f.startswith("C") and f.endswith(".py"))
for d in args:
    meta = json.load(open(os.path.join(d, "meta.json")))
    tmp = tempfile.mkdtemp(prefix="seed_")
    try:
        for sub in ("src", "docs"):
            shutil.copytree(os.path.join("/repo", sub), os.path.join(tmp, sub))
        r = subprocess.run(["patch", "-p1", "-s", "-d", tmp, "-i", os.path.abspath(os.path.join(d, "patch.diff"))], capture_output=True, text=True)
        if r.returncode != 0:
            print(f"{d}: PATCH FAILED {r.stdout} {r.stderr}")
            continue
        props = props_opt or (have if allp else [meta["property"]])
        res = []
        for p in props:
            if p not in have:
                res.append(f"{p}:nocheck")
                continue
            env = dict(os.environ, SNT_REPO=tmp)
            r = subprocess.run([os.path.join(VERIF, "vcheck"), p], capture_output=True, text=True, env=env)
            res.append(f"{p}:{r.returncode}")
            if verbose or (r.returncode != 0 and not allp):
                for ln in r.stdout.splitlines():
                    if ln.startswith(("VIOLATION", "  rule", "ANALYSIS-ERROR", "  found", "  expected")):
                        print("    " + ln[:300])
        print(f"{d} [{meta['property']}]: {' '.join(res)}")
    finally:
        shutil.rmtree(tmp, ignore_errors=True)
