#!/usr/bin/env python3
"""Mutation sensitivity of a property's rule set on the current tree: mutscore.py Cxx [per_function] [total]"""
import json, os, sys
from pathlib import Path
sys.path.insert(0, str(Path(__file__).resolve().parent.parent))
from importlib import import_module
from snt_static.report import VIOLATED, evaluate
from snt_static.mutate import sensitivity
prop = sys.argv[1]
per = int(sys.argv[2]) if len(sys.argv) > 2 else 12
total = int(sys.argv[3]) if len(sys.argv) > 3 else 400
rules = import_module(f"snt_static.rules.{prop}").RULES
root = os.environ.get("SNT_REPO", "/repo")
ctx = evaluate(prop, rules, "quick", root=root)
base = {i.key for i in ctx.instances if i.verdict == VIOLATED}
res = sensitivity(prop, ctx.functions_analysed, root, base, per, total=total)
print(json.dumps({k: v for k, v in res.items() if k != "survivors"}, indent=1))
for s in res.get("survivors", []):
    print("  survived:", s)
