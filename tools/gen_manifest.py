#!/usr/bin/env python3
"""Regenerates MANIFEST.json from the rule modules present under snt_static/rules."""
import importlib, json, os, sys
sys.path.insert(0, os.path.dirname(os.path.dirname(os.path.abspath(__file__))))
VERIF = os.path.dirname(os.path.dirname(os.path.abspath(__file__)))
props = [json.loads(l) for l in open(os.path.join(VERIF, "properties.jsonl"))]
checks, na = [], []
for p in props:
    pid = p["id"]
    try:
        mod = importlib.import_module(f"snt_static.rules.{pid}")
    except ImportError:
        na.append({"property_id": pid, "reason": "static rule set not built yet (see DESIGN.md section 2 for the planned structural clauses)"})
        continue
    if getattr(mod, "NOT_APPLICABLE", None):
        na.append({"property_id": pid, "reason": mod.NOT_APPLICABLE})
        continue
    checks.append({
        "property_id": pid,
        "quick_cmd": f"./vcheck {pid} --tier quick",
        "thorough_cmd": f"./vcheck {pid} --tier thorough",
        "evidence_file": f"evidence/{pid}.json",
        "replay_cmd_template": f"./vcheck {pid} --replay {{path}}",
        "engine": "snt_static",
        "level_claimed": {
            "category": "other",
            "text": mod.LEVEL_TEXT,
            "design_ref": f"DESIGN.md section 2, {pid}",
        },
        "level_note": mod.LEVEL_NOTE,
        "technique": mod.TECHNIQUE,
    })
manifest = {
    "version": 1,
    "setup_cmd": "./setup.sh",
    "hooks": {
        "guard": "SCINUMTOOLS_VERIF",
        "enable": "no hooks: the checks read /repo's source text only (ast); the guard variable is declared but unused",
        "baseline_off_cmd": "cd /repo && /venv/bin/python -m pytest -ra -q -p no:cacheprovider --timeout=900 --continue-on-collection-errors",
        "source_commits": [],
        "add_only": True,
    },
    "engines": [{
        "name": "snt_static",
        "path": "snt_static/",
        "serves_properties": [c["property_id"] for c in checks],
        "kind_free_text": "repository-specific static analysis over Python ast (stdlib only): literal-table extraction, decision-table extraction, symbolic normal forms, sign/kind domains, effect and who-may-write summaries, statement CFG with exceptional edges, regex ASTs",
    }],
    "checks": checks,
    "not_applicable": na,
    "notes": "Exit codes of ./vcheck: 0 all structural clauses hold; 1 VIOLATION (construct recognised and contradicts the rule); 2 ANALYSIS-ERROR (construct not recognised / anchor vanished / instance floor not reached: fails closed, never reported as a violation). Deterministic: VERIF_SEED is ignored (recorded as 0). ./vcheck --selftest (development aid, not a property check) applies seeded variants on scratch copies. Known findings: known_findings.json.",
}
json.dump(manifest, open(os.path.join(VERIF, "MANIFEST.json"), "w"), indent=1)
print(f"{len(checks)} checks, {len(na)} not applicable")
