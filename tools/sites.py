#!/usr/bin/env python3
"""Which check sites report VIOLATED on a patched scratch copy: sites.py <dir-with-patch.diff>... -> 'name site rule construct' lines"""
import os, shutil, subprocess, sys, tempfile
from pathlib import Path
os.environ["SNT_SITES"] = "1"
sys.path.insert(0, str(Path(__file__).resolve().parent.parent))
from importlib import import_module
from snt_static.report import VIOLATED, evaluate
props = [f"C{i:02d}" for i in range(1, 21)]
base = {}
for p in props:
    c = evaluate(p, import_module(f"snt_static.rules.{p}").RULES, "quick", root="/repo")
    base[p] = {i.key for i in c.instances if i.verdict == VIOLATED}
for d in sys.argv[1:]:
    tmp = tempfile.mkdtemp(prefix="sites_")
    try:
        for sub in ("src", "docs"):
            shutil.copytree(f"/repo/{sub}", f"{tmp}/{sub}")
        r = subprocess.run(["patch", "-p1", "-s", "-d", tmp, "-i", os.path.abspath(f"{d}/patch.diff")], capture_output=True)
        if r.returncode:
            print(d, "PATCH-FAIL"); continue
        for p in props:
            c = evaluate(p, import_module(f"snt_static.rules.{p}").RULES, "quick", root=tmp)
            for i in c.instances:
                if i.verdict == VIOLATED and i.key not in base[p]:
                    print(f"{d}\t{p}\t{i.site}\t{i.rule}\t{i.construct[:70]}")
    finally:
        shutil.rmtree(tmp, ignore_errors=True)
