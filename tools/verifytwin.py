#!/usr/bin/env python3
"""Re-verify a candidate behaviour-preserving twin independently of the agent that wrote it, and record first contact.
usage: verifytwin.py <dir with patch.diff diff.py meta.json> [--tests] [--checks]
 1. fresh export of /repo HEAD into a scratch directory (outside /repo and /verif)
 2. patch must apply
 3. diff.py <clean> <patched> must exit 0 (differential run over the twin's own inputs)
 5. --tests : the pinned suite on the patched export (must be 218 passed)
 6. --checks: all 20 quick checks with SNT_REPO=<patched> (first contact; evidence goes to a scratch dir)
Prints one JSON line. Development instrument only; no check calls it."""
import json, os, re, shutil, subprocess, sys, tempfile
VERIF = os.path.dirname(os.path.dirname(os.path.abspath(__file__)))
PY = "/venv/bin/python"


def run(cmd, **kw):
    return subprocess.run(cmd, capture_output=True, text=True, **kw)


def main():
    d = os.path.abspath(sys.argv[1])
    out = {"dir": d}
    tmp = tempfile.mkdtemp(prefix="vseed_")
    try:
        clean = os.path.join(tmp, "clean")
        os.makedirs(clean)
        r = subprocess.run(f"git -C /repo archive HEAD | tar -x -C {clean}", shell=True)
        pat = os.path.join(tmp, "pat")
        shutil.copytree(clean, pat)
        r = run(["patch", "-p1", "-s", "-d", pat, "-i", os.path.join(d, "patch.diff")])
        out["applies"] = r.returncode == 0
        if not out["applies"]:
            out["patch_err"] = (r.stdout + r.stderr)[:300]
            print(json.dumps(out)); return
        touched = run(["grep", "-E", r"^\+\+\+ ", os.path.join(d, "patch.diff")]).stdout.split("\n")
        out["files"] = [t[6:].split("\t")[0] for t in touched if t]
        out["only_src"] = all(f.startswith("src/scinumtools/") for f in out["files"])
        env = dict(os.environ, PYTHONDONTWRITEBYTECODE="1")
        r = run([PY, os.path.join(d, "diff.py"), clean, pat], env=env, timeout=600)
        out["diff_exit"] = r.returncode
        if r.returncode != 0:
            out["diff_out"] = (r.stdout + r.stderr)[-400:]
        if "--tests" in sys.argv:
            r = run([PY, "-m", "pytest", "-q", "-p", "no:cacheprovider", "--timeout=900"], cwd=pat, env=env)
            m = re.search(r"(\d+) passed", r.stdout)
            f = re.search(r"(\d+) failed", r.stdout)
            out["tests_passed"] = int(m.group(1)) if m else 0
            out["tests_failed"] = int(f.group(1)) if f else 0
            if out["tests_failed"] or not m:
                out["tests_tail"] = r.stdout[-500:]
        if "--checks" in sys.argv:
            import concurrent.futures as cf
            props = [f"C{i:02d}" for i in range(1, 21)]

            def one(p):
                ev = os.path.join(tmp, "ev_" + p)
                e = dict(env, SNT_REPO=pat, SNT_EVIDENCE_DIR=ev)
                r = run([os.path.join(VERIF, "vcheck"), p, "--tier", "quick"], env=e)
                lines = [l for l in r.stdout.splitlines() if l.startswith(("VIOLATION", "ANALYSIS-ERROR", "  rule", "UNRECOGNISED"))]
                return p, r.returncode, lines[:6]
            with cf.ThreadPoolExecutor(16) as ex:
                res = list(ex.map(one, props))
            out["checks"] = {p: rc for p, rc, _ in res if rc != 0}
            out["lines"] = {p: l for p, rc, l in res if rc != 0}
        print(json.dumps(out))
    finally:
        shutil.rmtree(tmp, ignore_errors=True)


main()
