#!/usr/bin/env python3
"""Run the property checks against behaviour-preserving refactorings on scratch copies.
usage: twinrun.py <dir-with-patch.diff-and-meta.json>... [--all-props] [-v]"""
import json, os, shutil, subprocess, sys, tempfile
VERIF = os.path.dirname(os.path.dirname(os.path.abspath(__file__)))
args = [a for a in sys.argv[1:] if not a.startswith("-")]
verbose = "-v" in sys.argv
allp = "--all-props" in sys.argv
have = sorted(f[:-3] for f in os.listdir(os.path.join(VERIF, "snt_static/rules")) if f.startswith("C") and f.endswith(".py") and len(f) == 6)
for d in args:
    meta = json.load(open(os.path.join(d, "meta.json")))
    tmp = tempfile.mkdtemp(prefix="twin_")
    try:
        for sub in ("src", "docs"):
            shutil.copytree(os.path.join("/repo", sub), os.path.join(tmp, sub))
        r = subprocess.run(["patch", "-p1", "-s", "-d", tmp, "-i", os.path.abspath(os.path.join(d, "patch.diff"))], capture_output=True, text=True)
        if r.returncode != 0:
            print(f"{d}: PATCH FAILED {r.stdout[:200]}")
            continue
        props = have if allp else [meta["property"]]
        res = []
        for p in props:
            r = subprocess.run([os.path.join(VERIF, "vcheck"), p], capture_output=True, text=True, env=dict(os.environ, SNT_REPO=tmp))
            if r.returncode != 0:
                res.append(f"{p}:{r.returncode}")
                for ln in r.stdout.splitlines():
                    if ln.startswith(("VIOLATION", "  rule", "ANALYSIS-ERROR")) or (verbose and ln.startswith(("  found", "  expected"))):
                        print("    " + ln[:260])
        print(f"{d} [{meta['property']}]: {' '.join(res) if res else 'silent'}")
    finally:
        shutil.rmtree(tmp, ignore_errors=True)
