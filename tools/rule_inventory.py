#!/usr/bin/env python3
"""Prints a markdown inventory of the rule sets (id, text, instances on the current tree)."""
import importlib, json, os, sys
sys.path.insert(0, os.path.dirname(os.path.dirname(os.path.abspath(__file__))))
from snt_static.report import evaluate, HOLDS, VIOLATED, UNRECOGNISED
props = [f"C{i:02d}" for i in range(1, 21)]
print("| rule | decides | instances today (holds / violated / unrecognised) |")
print("|---|---|---|")
tot = 0
for p in props:
    mod = importlib.import_module(f"snt_static.rules.{p}")
    ctx = evaluate(p, mod.RULES, "quick")
    for rid, text, fn in mod.RULES:
        ins = [i for i in ctx.instances if i.rule == rid]
        h = sum(1 for i in ins if i.verdict == HOLDS); v = sum(1 for i in ins if i.verdict == VIOLATED); u = sum(1 for i in ins if i.verdict == UNRECOGNISED)
        tot += len(ins)
        print(f"| {rid} | {text} | {h} / {v} / {u} |")
print(f"\nTotal rule instances evaluated on the current tree: {tot}")
