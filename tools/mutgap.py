#!/usr/bin/env python3
"""Development instrument (not a check): first-order mutants of the functions a property's rules analyse that the rule
set does NOT report (survived / unrecognised) and that the repository's own test suite does not notice either.
Those are the candidates for 'realistic change that passes the tests'; whether one breaks the property is judged by
reading.  usage: mutgap.py Cxx [per_function] [total]"""
import json, os, shutil, subprocess, sys, tempfile
from concurrent.futures import ProcessPoolExecutor
from pathlib import Path
V = Path(__file__).resolve().parent.parent
sys.path.insert(0, str(V))
from importlib import import_module
from snt_static.report import VIOLATED, UNRECOGNISED, evaluate
from snt_static.mutate import mutants_of_function
prop = sys.argv[1]
per = int(sys.argv[2]) if len(sys.argv) > 2 else 12
total = int(sys.argv[3]) if len(sys.argv) > 3 else 400
BASE = set()


def static(args):
    rel, qual, desc, src = args
    tmp = tempfile.mkdtemp(prefix="mg_")
    try:
        for sub in ("src", "docs"):
            shutil.copytree(f"/repo/{sub}", f"{tmp}/{sub}", copy_function=os.link)
        t = Path(tmp) / rel
        t.unlink(); t.write_text(src)
        ctx = evaluate(prop, import_module(f"snt_static.rules.{prop}").RULES, "quick", root=tmp)
        v = [i for i in ctx.instances if i.verdict == VIOLATED and i.key not in BASE]
        u = [i for i in ctx.instances if i.verdict == UNRECOGNISED]
        return (rel, qual, desc, src, "killed" if v else ("unrecognised" if u else "survived"))
    except Exception as e:
        return (rel, qual, desc, src, "error")
    finally:
        shutil.rmtree(tmp, ignore_errors=True)


def tests(args):
    rel, qual, desc, src, st = args
    tmp = tempfile.mkdtemp(prefix="mgt_")
    try:
        subprocess.run(f"git -C /repo archive HEAD | tar -x -C {tmp}", shell=True, check=True)
        (Path(tmp) / rel).write_text(src)
        r = subprocess.run(["/venv/bin/python", "-m", "pytest", "-x", "-q", "-p", "no:cacheprovider", "--timeout=120"], cwd=tmp, capture_output=True, text=True, timeout=900)
        return (rel, qual, desc, st, r.returncode == 0)
    except Exception:
        return (rel, qual, desc, st, False)
    finally:
        shutil.rmtree(tmp, ignore_errors=True)


if __name__ == "__main__":
    ctx = evaluate(prop, import_module(f"snt_static.rules.{prop}").RULES, "quick", root="/repo")
    BASE |= {i.key for i in ctx.instances if i.verdict == VIOLATED}
    work = []
    for f in sorted(ctx.functions_analysed):
        if "::" not in f:
            continue
        rel, qual = f.split("::", 1)
        p = Path("/repo") / rel
        if p.is_file():
            for desc, src in mutants_of_function(p.read_text(), qual, per):
                work.append((rel, qual, desc, src))
    if len(work) > total:
        step = len(work) / total
        work = [work[int(i * step)] for i in range(total)]
    with ProcessPoolExecutor(14) as ex:
        res = list(ex.map(static, work, chunksize=2))
    cnt = {}
    for r in res:
        cnt[r[4]] = cnt.get(r[4], 0) + 1
    print(prop, "static:", json.dumps(cnt))
    rest = [r for r in res if r[4] in ("survived", "unrecognised")]
    with ProcessPoolExecutor(14) as ex:
        tr = list(ex.map(tests, rest))
    ok = [t for t in tr if t[4]]
    print(prop, f"not reported: {len(rest)}; of those the test suite passes on {len(ok)}")
    for rel, qual, desc, st, _ in ok:
        print(f"  TEST-PASSING {st}: {rel}::{qual}: {desc}")
