#!/bin/bash
# Nothing to build: stdlib-only ast checkers. Sanity: the interpreter can import the engine.
cd "$(dirname "${BASH_SOURCE[0]}")"
# the repository's own interpreter parses whatever syntax the repository may use; stdlib only is needed
if [ -x /venv/bin/python ]; then PY=/venv/bin/python
elif command -v python3-vt >/dev/null 2>&1; then PY=python3-vt
else PY=python3; fi
PYTHONDONTWRITEBYTECODE=1 "$PY" -c "import snt_static.model, snt_static.literal, snt_static.report; print('snt_static ok')"
