#!/bin/bash
# Nothing to build: stdlib-only ast checkers. Sanity: the interpreter can import the engine.
cd "$(dirname "${BASH_SOURCE[0]}")"
if command -v python3-vt >/dev/null 2>&1; then PY=python3-vt
elif [ -x /venv/bin/python ]; then PY=/venv/bin/python
else PY=python3; fi
PYTHONDONTWRITEBYTECODE=1 "$PY" -c "import snt_static.model, snt_static.literal, snt_static.report; print('snt_static ok')"
